(* BaseLemmas.v — facts about Base.v: indexing, slicing, big-endian packing. *)
From Coq Require Import ZArith Lia ZifyBool ZifyN ZifyNat.
From UF Require Import Base.
Ltac Zify.zify_post_hook ::= Z.div_mod_to_equations.

Ltac unfold_pows := unfold pow8, pow16, pow20, pow24, pow32, pow64 in *.
Ltac nia_pows := unfold_pows; lia.

Lemma len_nil {A} : len (@nil A) = 0. Proof. reflexivity. Qed.
Lemma len_cons {A} (x : A) l : len (x :: l) = 1 + len l.
Proof. unfold len; cbn [length]; lia. Qed.
Lemma len_app {A} (l1 l2 : list A) : len (l1 ++ l2) = len l1 + len l2.
Proof. unfold len; rewrite app_length; lia. Qed.
Lemma len_length {A} (l : list A) : N.to_nat (len l) = length l.
Proof. unfold len; lia. Qed.

Lemma get_ok d i : i < len d -> exists b, get d i = Ok b /\ nth_error d (N.to_nat i) = Some b.
Proof.
  unfold get, len; intros H.
  destruct (nth_error d (N.to_nat i)) eqn:E; [eauto|].
  apply nth_error_None in E; lia.
Qed.

Lemma get_not_panic d i : i < len d -> exists b, get d i = Ok b.
Proof. intros H; destruct (get_ok d i H) as [b [Hb _]]; eauto. Qed.

Lemma get_app_l d1 d2 i : i < len d1 -> get (d1 ++ d2) i = get d1 i.
Proof.
  unfold get, len; intros H. rewrite nth_error_app1 by lia. reflexivity.
Qed.

Lemma get_app_r d1 d2 i : len d1 <= i -> get (d1 ++ d2) i = get d2 (i - len d1).
Proof.
  unfold get, len; intros H. rewrite nth_error_app2 by lia.
  replace (N.to_nat i - length d1)%nat with (N.to_nat (i - N.of_nat (length d1))) by lia. reflexivity.
Qed.

Lemma get_cons_0 b d : get (b :: d) 0 = Ok b.
Proof. reflexivity. Qed.

Lemma get_cons_S b d i : 0 < i -> get (b :: d) i = get d (i - 1).
Proof.
  unfold get; intros H. replace (N.to_nat i) with (S (N.to_nat (i - 1))) by lia. reflexivity.
Qed.

Lemma slice_from_app d1 d2 : slice_from (d1 ++ d2) (len d1) = Ok d2.
Proof.
  unfold slice_from. rewrite len_app.
  destruct (N.leb_spec (len d1) (len d1 + len d2)); [|lia].
  rewrite len_length, skipn_app, skipn_all, Nat.sub_diag. reflexivity.
Qed.

Lemma slice_app_l d1 d2 : slice (d1 ++ d2) 0 (len d1) = Ok d1.
Proof.
  unfold slice. rewrite len_app.
  destruct (N.leb_spec 0 (len d1)); [|lia].
  destruct (N.leb_spec (len d1) (len d1 + len d2)); [|lia].
  cbn [andb N.to_nat skipn]. rewrite N.sub_0_r, len_length.
  rewrite firstn_app, firstn_all, Nat.sub_diag. cbn [firstn]. rewrite app_nil_r. reflexivity.
Qed.

Lemma slice_mid d0 d1 d2 : slice (d0 ++ d1 ++ d2) (len d0) (len d0 + len d1) = Ok d1.
Proof.
  unfold slice. rewrite !len_app.
  destruct (N.leb_spec (len d0) (len d0 + len d1)); [|lia].
  destruct (N.leb_spec (len d0 + len d1) (len d0 + (len d1 + len d2))); [|lia].
  cbn [andb]. rewrite len_length, skipn_app, skipn_all, Nat.sub_diag. cbn [skipn app].
  replace (len d0 + len d1 - len d0) with (len d1) by lia.
  rewrite len_length, firstn_app, firstn_all, Nat.sub_diag. cbn [firstn]. rewrite app_nil_r. reflexivity.
Qed.

Lemma slice_not_panic d a b : a <= b -> b <= len d -> exists s, slice d a b = Ok s /\ len s = b - a.
Proof.
  intros H1 H2. unfold slice.
  destruct (N.leb_spec a b); [|lia]. destruct (N.leb_spec b (len d)); [|lia].
  cbn [andb]. eexists; split; [reflexivity|].
  unfold len in *. rewrite firstn_length, skipn_length. lia.
Qed.

Lemma slice_from_not_panic d a : a <= len d -> exists s, slice_from d a = Ok s /\ len s = len d - a.
Proof.
  intros H. unfold slice_from. destruct (N.leb_spec a (len d)); [|lia].
  eexists; split; [reflexivity|]. unfold len in *. rewrite skipn_length. lia.
Qed.

(* big-endian packing *)
Lemma be32_u32be x : x < pow32 ->
  be32 ((x / pow24) mod pow8) ((x / pow16) mod pow8) ((x / pow8) mod pow8) (x mod pow8) = x.
Proof. unfold be32; nia_pows. Qed.

Lemma be16_u16be x : x < pow16 -> be16 ((x / pow8) mod pow8) (x mod pow8) = x.
Proof. unfold be16; nia_pows. Qed.

Lemma u32be_bytes x : Forall (fun b => b < 256) (u32be x).
Proof. unfold u32be; repeat constructor; nia_pows. Qed.

Lemma u16be_bytes x : Forall (fun b => b < 256) (u16be x).
Proof. unfold u16be; repeat constructor; nia_pows. Qed.

Lemma be32_lt b0 b1 b2 b3 : b0 < 256 -> b1 < 256 -> b2 < 256 -> b3 < 256 -> be32 b0 b1 b2 b3 < pow32.
Proof. unfold be32; nia_pows. Qed.

Lemma get32_eq d i b0 b1 b2 b3 :
  get d i = Ok b0 -> get d (i+1) = Ok b1 -> get d (i+2) = Ok b2 -> get d (i+3) = Ok b3 ->
  get32 d i = Ok (be32 b0 b1 b2 b3).
Proof. unfold get32; intros -> -> -> ->; reflexivity. Qed.

Lemma get16_eq d i b0 b1 :
  get d i = Ok b0 -> get d (i+1) = Ok b1 -> get16 d i = Ok (be16 b0 b1).
Proof. unfold get16; intros -> ->; reflexivity. Qed.

Lemma get_app_off d l k : get (d ++ l) (len d + k) = get l k.
Proof. rewrite get_app_r by lia. f_equal; lia. Qed.

Lemma get_app_off0 d l : get (d ++ l) (len d) = get l 0.
Proof. rewrite get_app_r by lia. f_equal; lia. Qed.

Lemma get32_app_u32be d x rest : x < pow32 -> get32 (d ++ u32be x ++ rest) (len d) = Ok x.
Proof.
  intros Hx. unfold u32be; cbn [app].
  rewrite <- (be32_u32be x Hx) at 5.
  apply get32_eq; rewrite ?get_app_off, ?get_app_off0; reflexivity.
Qed.

Lemma get16_app_u16be d x rest : x < pow16 -> get16 (d ++ u16be x ++ rest) (len d) = Ok x.
Proof.
  intros Hx. unfold u16be; cbn [app].
  rewrite <- (be16_u16be x Hx) at 3.
  apply get16_eq; rewrite ?get_app_off, ?get_app_off0; reflexivity.
Qed.

Lemma bytes_ok_Forall d : bytes_ok d = true <-> Forall (fun b => b < 256) d.
Proof.
  unfold bytes_ok. rewrite forallb_forall, Forall_forall.
  split; intros H x Hx; specialize (H x Hx); lia.
Qed.

Lemma repeatN_length {A} (x : A) n : length (repeatN x n) = n.
Proof. induction n; cbn; congruence. Qed.
