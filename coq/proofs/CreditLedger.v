(* CreditLedger.v — C13 over whole histories of a HalfConnection: for ANY sequence of sends, receives, steps (any
   clock values), flushes and incoming frames (any contents), every byte ever put on the wire was paid from the flush
   credit and all credit comes from step():
       bytes emitted so far = initial credit + sum of the gains of the steps - current credit,
   a step that follows an earlier step gains at most refill(rate, t_prev, t_now) = floor(X*t_now) - floor(X*t_prev)
   (saturating) and never lifts the credit above round(X * rtt); the first step gains nothing; no other operation
   changes the credit. Together with flush()'s "the last frame started on a non-negative credit" this reduces the wire
   rate bound to the arithmetic of floor(X*t): no path adds credit or emits bytes outside this account. *)
From Coq Require Import ZArith Lia ZifyBool ZifyN ZifyNat.
From UF Require Import Consts Base Frame Codec F64 Feedback Sender Receiver FrameAck Heap FrameQueue SendRate HalfConn
                       BaseLemmas HcLemmas HcTotal HcCredit.
Local Open Scope Z_scope.

(* ghost ledger: bytes emitted, credit gained *)
Record ledger := mkLedger { lg_h : hc; lg_bytes : Z; lg_gain : Z }.

Definition lstep (l : ledger) (o : hc_op) : ledger :=
  match o with
  | OpFlush => match hc_flush (lg_h l) with
               | Ok (h', out) => mkLedger h' (lg_bytes l + bytes_of out) (lg_gain l)
               | _ => l
               end
  | OpStep now => match hc_step (lg_h l) now with
                  | Ok h' => mkLedger h' (lg_bytes l) (lg_gain l + (h_credit h' - h_credit (lg_h l)))
                  | _ => l
                  end
  | _ => mkLedger (hc_apply (lg_h l) o) (lg_bytes l) (lg_gain l)
  end.

Lemma lstep_h l o : lg_h (lstep l o) = hc_apply (lg_h l) o.
Proof.
  destruct o as [d c m| |now| |f]; cbn [lstep hc_apply lg_h]; try reflexivity.
  - destruct (hc_step (lg_h l) now); reflexivity.
  - destruct (hc_flush (lg_h l)) as [[h' out]| |]; reflexivity.
Qed.

Lemma handle_frame_credit h f h' k : hc_handle_frame h f = Ok (h', k) -> h_credit h' = h_credit h.
Proof.
  destruct f as [| | | | | |seq nonce dgs|nf np|fb pb acks]; cbn [hc_handle_frame]; intros E; try (inversion E; reflexivity).
  - inversion E; subst. unfold hc_handle_data_frame. destruct (faq_contains _ _); reflexivity.
  - inversion E; subst. unfold hc_handle_sync_frame. destruct nf, np; reflexivity.
  - unfold hc_handle_ack_frame in E. destruct (ack_groups _ _ _ _) as [r| |]; cbn [bind] in E; try discriminate.
    destruct (fq_advance_transfer_window _ _ _) as [q2| |]; cbn [bind] in E; try discriminate.
    destruct (sender_acknowledge _ _) as [s2| |]; cbn [bind] in E; try discriminate. inversion E; reflexivity.
Qed.

Definition Ledger (c0 : Z) (l : ledger) : Prop := h_credit (lg_h l) = c0 + lg_gain l - lg_bytes l.

Lemma lstep_ledger c0 l o : Ledger c0 l -> Ledger c0 (lstep l o).
Proof.
  unfold Ledger. intros H. destruct o as [d c m| |now| |f]; cbn [lstep].
  - cbn [lg_h lg_gain lg_bytes hc_apply]. exact H.
  - cbn [lg_h lg_gain lg_bytes hc_apply]. unfold hc_receive. destruct (receiver_receive _). exact H.
  - destruct (hc_step (lg_h l) now) as [h'| |]; [|exact H|exact H]. cbn [lg_h lg_gain lg_bytes]. lia.
  - destruct (hc_flush (lg_h l)) as [[h' out]| |] eqn:E; [|exact H|exact H]. cbn [lg_h lg_gain lg_bytes].
    destruct (hc_flush_credit _ _ _ E) as [A _]. lia.
  - cbn [lg_h lg_gain lg_bytes hc_apply]. destruct (hc_handle_frame (lg_h l) f) as [[h' k]| |] eqn:E; [|exact H|exact H].
    rewrite (handle_frame_credit _ _ _ _ E). exact H.
Qed.

Theorem credit_ledger h0 ops :
  let l := fold_left lstep ops (mkLedger h0 0 0) in
  lg_h l = fold_left hc_apply ops h0 /\ lg_bytes l = h_credit h0 + lg_gain l - h_credit (lg_h l) /\ 0 <= lg_bytes l.
Proof.
  cbv zeta.
  assert (G : forall l, Ledger (h_credit h0) l -> 0 <= lg_bytes l ->
            Ledger (h_credit h0) (fold_left lstep ops l) /\ 0 <= lg_bytes (fold_left lstep ops l) /\
            lg_h (fold_left lstep ops l) = fold_left hc_apply ops (lg_h l)).
  { induction ops as [|o t IH]; intros l H Hb; cbn [fold_left]; [auto|].
    destruct (IH (lstep l o) (lstep_ledger _ _ _ H)) as (A & B & C).
    - destruct o as [d c m| |now| |f]; cbn [lstep]; try exact Hb.
      + destruct (hc_step (lg_h l) now); exact Hb.
      + destruct (hc_flush (lg_h l)) as [[h' out]| |]; try exact Hb. cbn [lg_bytes]. pose proof (bytes_of_nonneg out). lia.
    - split; [exact A|]. split; [exact B|]. rewrite C, lstep_h. reflexivity. }
  destruct (G (mkLedger h0 0 0)) as (A & B & C); [unfold Ledger; cbn [lg_h lg_gain lg_bytes]; lia|cbn; lia|].
  cbn [lg_h] in C. split; [exact C|]. split; [unfold Ledger in A; lia|exact B].
Qed.

(* what one step can add *)
Theorem step_gain h now h' :
  hc_step h now = Ok h' ->
  match h_last_flushed h with
  | None => h_credit h' = h_credit h
  | Some t => h_credit h' <= sat_add_isize (h_credit h) (refill (sr_rate (h_src h)) t now) /\
              h_credit h' <= f_round_to_isize (PrimFloat.mul (f_of_N (sr_rate (h_src h))) (opt_default f0 (sr_rtt_s (h_src h))))
  end.
Proof.
  unfold hc_step. intros E.
  destruct (fq_forget_frames _ _ _) as [q1| |]; cbn [bind] in E; try discriminate.
  destruct (fq_get_feedback q1 now) as [q2 fb]. destruct (src_step (h_src h) now fb) as [[src' reset]| |]; cbn [bind] in E; try discriminate.
  match type of E with (do q3 <- ?X; _) = _ => destruct X as [q3| |]; cbn [bind] in E; try discriminate end.
  inversion E; subst h'. cbn [h_credit].
  destruct (h_last_flushed h) as [t|] eqn:El.
  - split; [apply (fill_flush_alloc_gain h now t El)|apply (fill_flush_alloc_capped h now t El)].
  - unfold hc_fill_flush_alloc. rewrite El. reflexivity.
Qed.

(* after any flush of any history: the credit is at least minus one frame — the last frame started on credit >= 0 *)
Theorem flush_leaves_credit h h' out :
  hc_flush h = Ok (h', out) -> out <> [] -> exists pre l, out = pre ++ [l] /\ - Z.of_N (len l) <= h_credit h'.
Proof.
  intros E Hne. destruct (hc_flush_credit _ _ _ E) as [A B]. destruct B as [B|(pre & l & Eq & B)]; [contradiction|].
  exists pre, l. split; [exact Eq|]. lia.
Qed.
