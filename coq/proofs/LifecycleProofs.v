(* LifecycleProofs.v — the client's event stream is well-formed (C08): optionally Connect, then Receive*, then
   at most one terminal event (Disconnect or Error), nothing afterwards — for every step, whatever datagrams
   arrive and whatever the clock reads. *)
From Coq Require Import ZArith Lia ZifyBool ZifyN ZifyNat.
From UF Require Import Consts Base Frame Codec Sender HalfConn Endpoint.

Inductive phase := Idle | Connected | Ended.

Definition ev_step (p : phase) (e : ep_event) : option phase :=
  match p, e with
  | Idle, EvConnect _ => Some Connected
  | Idle, EvError _ _ => Some Ended
  | Connected, EvReceive _ _ => Some Connected
  | Connected, EvDisconnect _ => Some Ended
  | Connected, EvError _ _ => Some Ended
  | _, _ => None
  end.

Fixpoint run (p : phase) (evs : list ep_event) : option phase :=
  match evs with
  | [] => Some p
  | e :: t => match ev_step p e with Some p' => run p' t | None => None end
  end.

Lemma run_app p l1 l2 : run p (l1 ++ l2) = match run p l1 with Some p' => run p' l2 | None => None end.
Proof. revert p. induction l1 as [|e t IH]; intros p; cbn [app run]; [reflexivity|]. destruct (ev_step p e); [apply IH|reflexivity]. Qed.

Lemma run_receives pkts : run Connected (map (EvReceive 0) pkts) = Some Connected.
Proof. induction pkts as [|x t IH]; cbn; [reflexivity|exact IH]. Qed.

Definition cphase (c : client) : phase :=
  match cl_state_ c with
  | ClPending _ _ _ _ _ => Idle
  | ClActive _ _ _ _ _ _ | ClClosing _ _ _ => Connected
  | ClClosed _ | ClFin => Ended
  end.

(* a step of an accumulator-style function: it appends events that the automaton accepts from the phase of
   the old state to the phase of the new state *)
Definition good (c : client) (a : cl_acc) (c' : client) (a' : cl_acc) : Prop :=
  exists evs, ca_events a' = ca_events a ++ evs /\ run (cphase c) evs = Some (cphase c').

Lemma good_refl c a : good c a c a.
Proof. exists []. rewrite app_nil_r. split; reflexivity. Qed.

Lemma good_trans c1 a1 c2 a2 c3 a3 : good c1 a1 c2 a2 -> good c2 a2 c3 a3 -> good c1 a1 c3 a3.
Proof.
  intros [e1 [E1 R1]] [e2 [E2 R2]]. exists (e1 ++ e2). split.
  - rewrite E2, E1, app_assoc. reflexivity.
  - rewrite run_app, R1. exact R2.
Qed.

Lemma good_send c a b : good c a c (ca_send a b).
Proof. exists []. cbn. rewrite app_nil_r. split; reflexivity. Qed.

Lemma good_sends c l : forall a, good c a c (fold_left ca_send l a).
Proof. induction l as [|x l IH]; intros a; cbn [fold_left]; [apply good_refl|]. eapply good_trans; [apply good_send|apply IH]. Qed.

Lemma good_same_phase c a c' a' : cphase c' = cphase c -> ca_events a' = ca_events a -> good c a c' a'.
Proof. intros Hp He. exists []. rewrite app_nil_r, Hp. split; [exact He|reflexivity]. Qed.

Lemma handle_syn_ack_good c a na n mrr mra now vnow :
  good c a (fst (cl_handle_syn_ack c a na n mrr mra now vnow)) (snd (cl_handle_syn_ack c a na n mrr mra now vnow)).
Proof.
  unfold cl_handle_syn_ack. destruct (cl_state_ c) eqn:Es; try apply good_refl.
  - destruct (na =? local_nonce); [|apply good_refl]. cbn [fst snd].
    exists [EvConnect 0]. split; [reflexivity|]. unfold cphase. rewrite Es. reflexivity.
  - destruct (_ && _); cbn [fst snd]; [|apply good_refl].
    apply good_same_phase; [unfold cphase; rewrite Es; reflexivity|reflexivity].
Qed.

Lemma handle_error_good c a na e : good c a (fst (cl_handle_error c a na e)) (snd (cl_handle_error c a na e)).
Proof.
  unfold cl_handle_error. destruct (cl_state_ c) eqn:Es; try apply good_refl.
  destruct (na =? local_nonce); [|apply good_refl]. cbn [fst snd].
  eexists [_]. split; [reflexivity|]. unfold cphase. rewrite Es. reflexivity.
Qed.

Lemma handle_disconnect_good c a now : good c a (fst (cl_handle_disconnect c a now)) (snd (cl_handle_disconnect c a now)).
Proof.
  unfold cl_handle_disconnect. destruct (cl_state_ c) eqn:Es; try apply good_refl.
  - destruct (hc_receive h) as [h' pkts]. cbn [fst snd].
    exists (map (EvReceive 0) pkts ++ [EvDisconnect 0]). split.
    + cbn. rewrite app_assoc. reflexivity.
    + unfold cphase. rewrite Es. rewrite run_app, run_receives. reflexivity.
  - cbn [fst snd]. exists [EvDisconnect 0]. split; [reflexivity|]. unfold cphase. rewrite Es. reflexivity.
  - cbn [fst snd]. apply good_same_phase; reflexivity.
Qed.

Lemma handle_frame_good c a f now vnow r : cl_handle_frame c a f now vnow = Ok r -> good c a (fst r) (snd r).
Proof.
  destruct f; cbn [cl_handle_frame]; intros H.
  - inversion H; apply good_refl.
  - inversion H; subst. apply handle_syn_ack_good.
  - inversion H; apply good_refl.
  - inversion H; subst. apply handle_error_good.
  - inversion H; subst. apply handle_disconnect_good.
  - destruct (cl_state_ c) eqn:Es; inversion H; subst; try apply good_refl.
    cbn [fst snd]. exists [EvDisconnect 0]. split; [reflexivity|]. unfold cphase. rewrite Es. reflexivity.
  - destruct (cl_state_ c) eqn:Es; try (inversion H; subst; apply good_refl).
    destruct (hc_handle_frame h _) as [[h' k]| |]; cbn [bind] in H; inversion H; subst. cbn [fst snd].
    apply good_same_phase; [unfold cphase; rewrite Es; reflexivity|reflexivity].
  - destruct (cl_state_ c) eqn:Es; try (inversion H; subst; apply good_refl).
    destruct (hc_handle_frame h _) as [[h' k]| |]; cbn [bind] in H; inversion H; subst. cbn [fst snd].
    apply good_same_phase; [unfold cphase; rewrite Es; reflexivity|reflexivity].
  - destruct (cl_state_ c) eqn:Es; try (inversion H; subst; apply good_refl).
    destruct (hc_handle_frame h _) as [[h' k]| |]; cbn [bind] in H; inversion H; subst. cbn [fst snd].
    apply good_same_phase; [unfold cphase; rewrite Es; reflexivity|reflexivity].
Qed.

Lemma handle_frames_good inbox : forall c a now vnow r, cl_handle_frames inbox c a now vnow = Ok r -> good c a (fst r) (snd r).
Proof.
  induction inbox as [|bytes rest IH]; intros c a now vnow r H; cbn [cl_handle_frames] in H.
  - inversion H; apply good_refl.
  - destruct (read_frame bytes) as [[f|]| |]; cbn [bind] in H; try discriminate.
    + destruct (cl_handle_frame c a f now vnow) as [ca| |] eqn:E; cbn [bind] in H; try discriminate.
      eapply good_trans; [eapply handle_frame_good; exact E|eapply IH; exact H].
    + eapply IH; exact H.
Qed.

Lemma handle_events_good c a now : good c a (fst (cl_handle_events c a now)) (snd (cl_handle_events c a now)).
Proof.
  unfold cl_handle_events. destruct (cl_state_ c) eqn:Es.
  - destruct (resend_time <=? now); [|apply good_refl]. destruct (0 <? resend_count); cbn [fst snd].
    + apply good_same_phase; [unfold cphase; rewrite Es; reflexivity|reflexivity].
    + exists [EvError 0 0]. split; [reflexivity|]. unfold cphase. rewrite Es. reflexivity.
  - destruct (timeout_time <=? now); [|apply good_refl]. cbn [fst snd].
    exists [EvError 0 0]. split; [reflexivity|]. unfold cphase. rewrite Es. reflexivity.
  - destruct (resend_time <=? now); [|apply good_refl]. destruct (0 <? resend_count); cbn [fst snd].
    + apply good_same_phase; [unfold cphase; rewrite Es; reflexivity|reflexivity].
    + exists [EvError 0 0]. split; [reflexivity|]. unfold cphase. rewrite Es. reflexivity.
  - destruct (timeout_time <=? now); [|apply good_refl]. cbn [fst snd].
    apply good_same_phase; [unfold cphase; rewrite Es; reflexivity|reflexivity].
  - apply good_refl.
Qed.

Lemma flush_good c a r : cl_flush_if_active c a = Ok r -> good c a (fst r) (snd r).
Proof.
  unfold cl_flush_if_active. destruct (cl_state_ c) eqn:Es; try (intros H; inversion H; apply good_refl).
  destruct (hc_flush h) as [[h' frames]| |]; cbn [bind]; intros H; inversion H; subst. cbn [fst snd].
  eapply good_trans; [|apply good_sends]. apply good_same_phase; [unfold cphase; rewrite Es; reflexivity|reflexivity].
Qed.

Lemma step_if_active_good c a now vnow r : cl_step_if_active c a now vnow = Ok r -> good c a (fst r) (snd r).
Proof.
  unfold cl_step_if_active. destruct (cl_state_ c) eqn:Es; try (intros H; inversion H; apply good_refl).
  match goal with |- (if ?x then _ else _) = _ -> _ => destruct x end.
  - destruct (hc_receive h) as [h' pkts]. intros H; inversion H; subst. cbn [fst snd].
    exists (map (EvReceive 0) pkts). split; [reflexivity|]. unfold cphase. rewrite Es. apply run_receives.
  - destruct (hc_step h (vnow - t0)) as [h1| |]; cbn [bind]; try discriminate.
    destruct (hc_receive h1) as [h2 pkts]. intros H; inversion H; subst. cbn [fst snd].
    exists (map (EvReceive 0) pkts). split; [reflexivity|]. unfold cphase. rewrite Es. apply run_receives.
Qed.

(* Client::step: the events it returns are accepted by the automaton, from the phase before to the phase after *)
Theorem client_step_grammar c vnow inbox c' evs sends :
  client_step c vnow inbox = Ok (c', evs, sends) -> run (cphase c) evs = Some (cphase c').
Proof.
  unfold client_step. intros H.
  destruct (cl_flush_if_active c (mkClAcc [] [])) as [r1| |] eqn:E1; cbn [bind] in H; try discriminate.
  destruct (cl_handle_frames inbox (fst r1) (snd r1) _ vnow) as [r2| |] eqn:E2; cbn [bind] in H; try discriminate.
  pose proof (handle_events_good (fst r2) (snd r2) (vnow - cl_t0 c)) as G3.
  destruct (cl_handle_events (fst r2) (snd r2) _) as [c3 a3]. cbn [fst snd] in G3.
  destruct (cl_step_if_active c3 a3 _ vnow) as [r4| |] eqn:E4; cbn [bind] in H; try discriminate.
  inversion H; subst; clear H.
  pose proof (good_trans _ _ _ _ _ _ (flush_good _ _ _ E1)
               (good_trans _ _ _ _ _ _ (handle_frames_good _ _ _ _ _ _ E2)
                  (good_trans _ _ _ _ _ _ G3 (step_if_active_good _ _ _ _ _ E4)))) as [evs [Ee Er]].
  cbn in Ee. subst. exact Er.
Qed.

(* the application's own calls emit nothing and never move the phase backwards *)
Lemma client_send_phase c d ch m : cphase (client_send c d ch m) = cphase c.
Proof. unfold client_send, cphase. destruct (cl_state_ c) eqn:E; cbn; rewrite ?E; reflexivity. Qed.

Lemma client_disconnect_phase c now : cphase (client_disconnect c now) = cphase c \/ (cphase c = Idle /\ cphase (client_disconnect c now) = Ended).
Proof. unfold client_disconnect, cphase. destruct (cl_state_ c) eqn:E; cbn; rewrite ?E; auto. Qed.

(* every reachable client: the concatenation of all events ever reported is accepted from Idle *)
Inductive client_op := CStep (vnow : N) (inbox : list (list N)) | CSend (d : list N) (ch : N) (m : send_mode) | CDisconnect (now : bool).

Definition client_apply (st : client * list ep_event) (o : client_op) : client * list ep_event :=
  let '(c, log) := st in
  match o with
  | CStep vnow inbox => match client_step c vnow inbox with Ok (c', evs, _) => (c', log ++ evs) | _ => (c, log) end
  | CSend d ch m => (client_send c d ch m, log)
  | CDisconnect now => (client_disconnect c now, log)
  end.

Definition phase_le (p q : phase) : Prop :=
  match p, q with Idle, _ => True | Connected, Connected => True | Connected, Ended => True | Ended, Ended => True | _, _ => False end.

Theorem client_event_stream_wellformed ec nonce t0 seed ops :
  let '(c, log) := fold_left client_apply ops (fst (client_connect ec nonce t0 seed), []) in
  exists p, run Idle log = Some p /\ (p = cphase c \/ (p = Idle /\ cphase c = Ended)).
Proof.
  assert (G : forall ops c log p, run Idle log = Some p -> (p = cphase c \/ (p = Idle /\ cphase c = Ended)) ->
              let '(c', log') := fold_left client_apply ops (c, log) in
              exists p', run Idle log' = Some p' /\ (p' = cphase c' \/ (p' = Idle /\ cphase c' = Ended))).
  { clear. induction ops as [|o ops IH]; intros c log p Hr Hp; cbn [fold_left]; [eauto|].
    destruct o; cbn [client_apply].
    - destruct (client_step c vnow inbox) as [[[c' evs] sends]| |] eqn:E; try (eapply IH; eassumption).
      pose proof (client_step_grammar _ _ _ _ _ _ E) as Hg.
      destruct Hp as [Hp|[Hp1 Hp2]].
      + eapply (IH c' (log ++ evs) (cphase c')); [rewrite run_app, Hr, Hp; exact Hg|left; reflexivity].
      + (* the application abandoned a pending connection: nothing is ever reported again *)
        rewrite Hp2 in Hg. destruct evs as [|e evs]; [|cbn in Hg; destruct e; discriminate].
        cbn in Hg. inversion Hg. rewrite app_nil_r.
        eapply (IH c' log p); [exact Hr|right; split; [exact Hp1|congruence]].
    - eapply (IH _ log p); [exact Hr|]. rewrite client_send_phase. exact Hp.
    - eapply (IH _ log p); [exact Hr|].
      destruct (client_disconnect_phase c now) as [E|[E1 E2]].
      + rewrite E. exact Hp.
      + destruct Hp as [Hp|[Hp1 Hp2]]; [right; split; [congruence|exact E2]|congruence]. }
  apply (G ops _ [] Idle); [reflexivity|left; reflexivity].
Qed.
