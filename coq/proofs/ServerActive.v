(* ServerActive.v — C10, server side: the active timeout of an established connection over whole histories.
   Ghost: LA addr = the server clock (ms since bind) of the last step whose socket input contained a frame from
   `addr` that refreshes an established connection (handshake ACK, data, sync or ack frame that parses). The ghost is
   determined by the datagrams alone, not by the server's state. Invariant over every history of steps (any
   datagrams, any clock values), flushes, drops, sends and disconnect calls: every object in the Active state has
       timeout_time = LA (its address) + active_timeout_ms.
   The timeout pass of step() reports Error(Timeout) for a listed active object exactly when timeout_time <= now.
   Together: an established connection is timed out only when no sv_refreshing frame from its peer arrived during the
   preceding active_timeout_ms, and in the first step after that much silence. *)
From Coq Require Import ZArith Lia ZifyBool ZifyN ZifyNat.
From UF Require Import Consts Base Frame Codec F64 Feedback Sender Receiver FrameAck Heap FrameQueue SendRate HalfConn Endpoint
                       BaseLemmas SenderProofs EndpointProofs EndpointTotal ServerBytes ServerGrammar.
Local Open Scope N_scope.

Definition ato (s : server) : N := ec_active_timeout (svc_ec (sv_cfg s)).

Definition deadline_of (st : sv_cstate) : option N := match st with SvActive _ _ to _ => Some to | _ => None end.

(* frames that an established connection counts as "heard from the peer" *)
Definition sv_refreshing (f : frame) : bool :=
  match f with FHsAck _ | FData _ _ _ | FSync _ _ | FAcks _ _ _ => true | _ => false end.

Definition updN (g : N -> N) (k v : N) : N -> N := fun x => if x =? k then v else g x.

Definition AInv (s : server) (LA : N -> N) : Prop :=
  forall id to, deadline_of (so_state (sv_obj_get s id)) = Some to -> to = LA (so_addr (sv_obj_get s id)) + ato s.

(* ---------- changes that keep every active deadline ---------- *)
Definition KD (s s' : server) : Prop :=
  sv_cfg s' = sv_cfg s /\
  forall id to, deadline_of (so_state (sv_obj_get s' id)) = Some to ->
                deadline_of (so_state (sv_obj_get s id)) = Some to /\ so_addr (sv_obj_get s' id) = so_addr (sv_obj_get s id).

Lemma K_refl s : KD s s. Proof. split; [reflexivity|auto]. Qed.

Lemma K_trans a b c : KD a b -> KD b c -> KD a c.
Proof.
  intros [C1 H1] [C2 H2]. split; [congruence|]. intros id to H. destruct (H2 id to H) as [H3 E3]. destruct (H1 id to H3) as [H4 E4].
  split; [exact H4|congruence].
Qed.

Lemma K_AI s s' LA : KD s s' -> AInv s LA -> AInv s' LA.
Proof.
  intros [C H] I id to Hd. destruct (H id to Hd) as [Hd0 Ea]. unfold ato. rewrite C, Ea. exact (I id to Hd0).
Qed.

Lemma K_same_objs s s' : sv_cfg s' = sv_cfg s -> sv_objs s' = sv_objs s -> KD s s'.
Proof. intros C E. split; [exact C|]. unfold sv_obj_get. rewrite E. auto. Qed.

Lemma K_set_obj s id st :
  (forall to, deadline_of st = Some to -> deadline_of (so_state (sv_obj_get s id)) = Some to) -> KD s (sv_set_obj s id st).
Proof.
  intros Hst. split; [reflexivity|]. intros j to Hd. rewrite set_obj_addr. split; [|reflexivity].
  destruct (N.lt_ge_cases id (len (sv_objs s))) as [Hin|Hout].
  - destruct (N.eq_dec j id) as [->|Hne].
    + rewrite obj_get_set_same in Hd by exact Hin. cbn [so_state] in Hd. apply Hst. exact Hd.
    + rewrite obj_get_set_other in Hd by exact Hne. exact Hd.
  - unfold sv_obj_get in *. rewrite set_obj_out_of_range in Hd by exact Hout. exact Hd.
Qed.

Lemma K_remove s addr : KD s (sv_remove_addr s addr). Proof. apply K_same_objs; reflexivity. Qed.
Lemma K_push s e : KD s (sv_push_event s e). Proof. apply K_same_objs; reflexivity. Qed.

Ltac kset E := apply K_set_obj; cbn [deadline_of]; intros ? HH; try discriminate HH; rewrite E; cbn [deadline_of]; exact HH.

(* ---------- the phases of step() other than frame handling ---------- *)
Lemma sv_flush_active_K : forall ids s a r, sv_flush_active ids s a = Ok r -> KD s (fst r).
Proof.
  induction ids as [|id rest IH]; intros s a r E; cbn [sv_flush_active] in E; [inversion E; apply K_refl|].
  destruct (so_state (sv_obj_get s id)) eqn:Es; try (eapply IH; exact E).
  destruct (hc_flush h) as [[h' out]| |]; cbn [bind fst snd] in E; try discriminate.
  eapply K_trans; [|eapply IH; exact E]. kset Es.
Qed.

Lemma sv_handle_event_K s a ev now : KD s (fst (sv_handle_event s a ev now)).
Proof.
  unfold sv_handle_event. destruct (so_state (sv_obj_get s (rq_uid ev))) eqn:Es; cbn [fst]; try apply K_refl.
  - destruct (rq_frag ev =? 0); [|apply K_refl]. destruct (0 <? rq_count ev); cbn [fst]; [apply K_push|].
    eapply K_trans; [|apply K_remove]. kset Es.
  - destruct (rq_frag ev =? 1); [|apply K_refl]. destruct (0 <? rq_count ev); cbn [fst]; [apply K_push|].
    eapply K_trans; [|apply K_remove]. kset Es.
  - destruct (rq_frag ev =? 2); cbn [fst]; [|apply K_refl]. eapply K_trans; [|apply K_remove]. kset Es.
Qed.

Lemma sv_pop_events_K now : forall fuel s a r, sv_pop_events fuel s a now = Ok r -> KD s (fst r).
Proof.
  induction fuel as [|f IH]; intros s a r E; cbn [sv_pop_events] in E; [discriminate|].
  destruct (heap_peek (sv_events s)) as [ev|]; [|inversion E; apply K_refl].
  destruct (now <? rq_time ev); [inversion E; apply K_refl|].
  destruct (heap_pop (sv_events s)) as [[ev' rest]|]; [|discriminate].
  match type of E with context [sv_handle_event ?S1 a ev' now] => pose proof (sv_handle_event_K S1 a ev' now) as K1;
    destruct (sv_handle_event S1 a ev' now) as [s2 a2]; cbn [fst] in K1;
    assert (K0 : KD s S1) by (apply K_same_objs; reflexivity) end.
  eapply K_trans; [exact K0|]. eapply K_trans; [exact K1|]. eapply IH; exact E.
Qed.

Lemma sv_active_timeouts_K now : forall ids s a, KD s (fst (sv_active_timeouts ids s a now)).
Proof.
  induction ids as [|id rest IH]; intros s a; cbn [sv_active_timeouts]; [apply K_refl|].
  destruct (so_state (sv_obj_get s id)) eqn:Es; try apply IH.
  destruct (timeout_time <=? now); [|apply IH]. destruct (hc_receive h) as [h' pkts].
  eapply K_trans; [|apply IH]. eapply K_trans; [|apply K_remove]. kset Es.
Qed.

Lemma sv_step_active_K now vnow : forall ids s a r, sv_step_active ids s a now vnow = Ok r -> KD s (fst r).
Proof.
  induction ids as [|id rest IH]; intros s a r E; cbn [sv_step_active] in E; [inversion E; apply K_refl|].
  destruct (so_state (sv_obj_get s id)) eqn:Es; try (eapply IH; exact E).
  match type of E with (if ?c then _ else _) = _ => destruct c end.
  - destruct (hc_receive h) as [h' pkts]. eapply K_trans; [|eapply IH; exact E]. eapply K_trans; [|apply K_push]. kset Es.
  - destruct (hc_step h (vnow - t0)) as [h1| |]; cbn [bind] in E; try discriminate.
    destruct (hc_receive h1) as [h2 pkts]. eapply K_trans; [|eapply IH; exact E]. kset Es.
Qed.

(* ---------- frame handling: the ghost moves with every sv_refreshing frame ---------- *)
Lemma active_is_looked_up s j to : WF s -> deadline_of (so_state (sv_obj_get s j)) = Some to ->
  sv_lookup s (so_addr (sv_obj_get s j)) = Some j.
Proof.
  intros W Hd. assert (Hl : so_state (sv_obj_get s j) <> SvFin) by (intros E; rewrite E in Hd; discriminate Hd).
  apply live_lookup; [exact W|apply obj_range; exact Hl|exact Hl].
Qed.

(* no active object at the address: the ghost of that address is free *)
Lemma AI_free s LA addr v : WF s -> AInv s LA ->
  (forall j to, deadline_of (so_state (sv_obj_get s j)) = Some to -> so_addr (sv_obj_get s j) <> addr) -> AInv s (updN LA addr v).
Proof.
  intros W I Hn j to Hd. unfold updN. rewrite (proj2 (N.eqb_neq _ _) (Hn j to Hd)). exact (I j to Hd).
Qed.

Lemma AI_not_active s LA addr v : WF s -> AInv s LA ->
  match sv_lookup s addr with Some id => deadline_of (so_state (sv_obj_get s id)) = None | None => True end -> AInv s (updN LA addr v).
Proof.
  intros W I Hl. apply AI_free; [exact W|exact I|]. intros j to Hd Ea. pose proof (active_is_looked_up s j to W Hd) as Lk.
  rewrite Ea in Lk. rewrite Lk in Hl. rewrite Hl in Hd. discriminate Hd.
Qed.

(* the looked-up object is (re)written with a deadline of now + ato *)
Lemma AI_refresh s LA addr id st now : WF s -> AInv s LA -> sv_lookup s addr = Some id ->
  so_state (sv_obj_get s id) <> SvFin ->
  (forall to, deadline_of st = Some to -> to = now + ato s) -> AInv (sv_set_obj s id st) (updN LA addr now).
Proof.
  intros W I Lk Hlive Hst j to Hd. destruct (lookup_addr_wf s addr id W Lk) as [Hr Ea].
  rewrite set_obj_addr. change (ato (sv_set_obj s id st)) with (ato s). unfold updN.
  destruct (N.eq_dec j id) as [->|Hne].
  - rewrite obj_get_set_same in Hd by exact Hr. cbn [so_state] in Hd. rewrite Ea, N.eqb_refl. apply Hst. exact Hd.
  - rewrite obj_get_set_other in Hd by exact Hne.
    destruct (N.eqb_spec (so_addr (sv_obj_get s j)) addr) as [E|_]; [|exact (I j to Hd)].
    exfalso. pose proof (active_is_looked_up s j to W Hd) as Lj. rewrite E, Lk in Lj. inversion Lj. congruence.
Qed.

Lemma handle_syn_K s a addr v n mrr mps mra now : KD s (fst (sv_handle_syn s a addr v n mrr mps mra now)).
Proof.
  unfold sv_handle_syn. destruct (sv_lookup s addr); [apply K_refl|].
  destruct (negb _); [apply K_refl|]. destruct (_ || _); [apply K_refl|]. destruct (_ <? _); [apply K_refl|]. destruct (_ <? _); [apply K_refl|].
  cbn [fst]. eapply K_trans; [|apply K_push]. split; [reflexivity|]. intros j to Hd. unfold sv_obj_get in *. cbn [sv_objs] in *.
  destruct (Nat.lt_ge_cases (N.to_nat j) (length (sv_objs s))) as [Hin|Hout].
  - rewrite app_nth1 in * by exact Hin. split; [exact Hd|reflexivity].
  - exfalso. rewrite app_nth2 in Hd by exact Hout. destruct (N.to_nat j - length (sv_objs s))%nat as [|[|k]]; cbn in Hd; discriminate Hd.
Qed.

Lemma handle_disconnect_K s a addr now : KD s (fst (sv_handle_disconnect s a addr now)).
Proof.
  unfold sv_handle_disconnect. destruct (sv_lookup s addr) as [id|]; [|apply K_refl].
  destruct (so_state (sv_obj_get s id)) eqn:Es; cbn [fst]; try apply K_refl.
  - destruct (hc_receive h) as [h' pkts]. cbn [fst]. eapply K_trans; [|apply K_push]. kset Es.
  - eapply K_trans; [|apply K_push]. kset Es.
Qed.

Lemma handle_disconnect_ack_K s a addr : KD s (fst (sv_handle_disconnect_ack s a addr)).
Proof.
  unfold sv_handle_disconnect_ack. destruct (sv_lookup s addr) as [id|]; [|apply K_refl].
  destruct (so_state (sv_obj_get s id)) eqn:Es; cbn [fst]; try apply K_refl.
  eapply K_trans; [|apply K_remove]. kset Es.
Qed.

Definition la_frame (LA : N -> N) (addr : N) (f : frame) (now : N) : N -> N :=
  if sv_refreshing f then updN LA addr now else LA.

Lemma handle_frame_AI s a addr f now vnow r LA :
  WF s -> AInv s LA -> sv_handle_frame s a addr f now vnow = Ok r -> AInv (fst r) (la_frame LA addr f now).
Proof.
  intros W I E. unfold la_frame.
  assert (Hack : forall na, AInv (fst (sv_handle_ack s a addr na now vnow)) (updN LA addr now)).
  { intros na. unfold sv_handle_ack. destruct (sv_lookup s addr) as [id|] eqn:Lk; cbn [fst].
    - destruct (so_state (sv_obj_get s id)) eqn:Es; cbn [fst];
        try (apply AI_not_active; [exact W|exact I|rewrite Lk, Es; reflexivity]).
      + destruct (_ && _); cbn [fst]; [|apply AI_not_active; [exact W|exact I|rewrite Lk, Es; reflexivity]].
        match goal with |- AInv (mkServer _ _ _ _ _ _ _) _ => eapply K_AI; [apply K_same_objs with (s' := mkServer _ _ _ _ _ _ _); reflexivity|] end.
        apply AI_refresh; [exact W|exact I|exact Lk|rewrite Es; discriminate|]. cbn [deadline_of]. intros to H; inversion H; reflexivity.
      + apply AI_refresh; [exact W|exact I|exact Lk|rewrite Es; discriminate|]. cbn [deadline_of]. intros to H; inversion H; reflexivity.
    - apply AI_not_active; [exact W|exact I|rewrite Lk; exact Logic.I]. }
  assert (Hhc : forall r0, sv_handle_hc_frame s a addr f now = Ok r0 -> AInv (fst r0) (updN LA addr now)).
  { intros r0 E0. unfold sv_handle_hc_frame in E0. destruct (sv_lookup s addr) as [id|] eqn:Lk.
    - destruct (so_state (sv_obj_get s id)) eqn:Es;
        try (inversion E0; cbn [fst]; apply AI_not_active; [exact W|exact I|rewrite Lk, Es; reflexivity]).
      destruct (hc_handle_frame h f) as [[h' x]| |]; cbn [bind fst snd] in E0; try discriminate. inversion E0; cbn [fst].
      apply AI_refresh; [exact W|exact I|exact Lk|rewrite Es; discriminate|]. cbn [deadline_of]. intros to H; inversion H; reflexivity.
    - inversion E0; cbn [fst]. apply AI_not_active; [exact W|exact I|rewrite Lk; exact Logic.I]. }
  destruct f; cbn [sv_handle_frame sv_refreshing] in *; try (apply Hhc; exact E); inversion E; cbn [fst]; try exact I.
  - eapply K_AI; [apply handle_syn_K|exact I].
  - apply Hack.
  - eapply K_AI; [apply handle_disconnect_K|exact I].
  - eapply K_AI; [apply handle_disconnect_ack_K|exact I].
Qed.

Lemma handle_frame_cfg s a addr f now vnow r : sv_handle_frame s a addr f now vnow = Ok r -> sv_cfg (fst r) = sv_cfg s.
Proof.
  intros E.
  assert (Hhc : forall r0, sv_handle_hc_frame s a addr f now = Ok r0 -> sv_cfg (fst r0) = sv_cfg s).
  { intros r0 E0. unfold sv_handle_hc_frame in E0. destruct (sv_lookup s addr) as [id|]; [|inversion E0; reflexivity].
    destruct (so_state (sv_obj_get s id)); try (inversion E0; reflexivity).
    destruct (hc_handle_frame h f) as [[h' x]| |]; cbn [bind fst snd] in E0; try discriminate. inversion E0; reflexivity. }
  destruct f; cbn [sv_handle_frame] in E; try (apply Hhc; exact E); inversion E; cbn [fst]; try reflexivity.
  - exact (proj1 (handle_syn_K _ _ _ _ _ _ _ _ _)).
  - unfold sv_handle_ack. destruct (sv_lookup s addr) as [id|]; [|reflexivity].
    destruct (so_state (sv_obj_get s id)); try reflexivity. destruct (_ && _); reflexivity.
  - exact (proj1 (handle_disconnect_K _ _ _ _)).
  - exact (proj1 (handle_disconnect_ack_K _ _ _)).
Qed.

(* the ghost after a whole inbox *)
Fixpoint la_frames (inbox : list (N * list N)) (LA : N -> N) (now : N) : N -> N :=
  match inbox with
  | [] => LA
  | (addr, bytes) :: rest =>
      match read_frame bytes with
      | Ok (Some f) => la_frames rest (la_frame LA addr f now) now
      | _ => la_frames rest LA now
      end
  end.

Lemma handle_frames_AI now vnow : forall inbox s a r LA,
  WF s -> AInv s LA -> sv_handle_frames inbox s a now vnow = Ok r ->
  AInv (fst r) (la_frames inbox LA now) /\ WF (fst r) /\ sv_cfg (fst r) = sv_cfg s.
Proof.
  induction inbox as [|[addr bytes] rest IH]; intros s a r LA W I E; cbn [sv_handle_frames la_frames] in *; [inversion E; split; [assumption|split; [assumption|reflexivity]]|].
  destruct (read_frame bytes) as [[f|]| |]; cbn [bind] in E; try discriminate; [|eapply IH; eassumption].
  destruct (sv_handle_frame s a addr f now vnow) as [[s1 a1]| |] eqn:E1; cbn [bind fst snd] in E; try discriminate.
  pose proof (handle_frame_AI _ _ _ _ _ _ _ _ W I E1) as I1. destruct (sv_handle_frame_good 0 _ _ _ _ _ _ _ E1 W) as [W1 _].
  pose proof (handle_frame_cfg _ _ _ _ _ _ _ E1) as C1.
  cbn [fst] in I1, W1, C1. destruct (IH _ _ _ _ W1 I1 E) as (A & B & C). split; [exact A|split; [exact B|congruence]].
Qed.

(* closed form: an address was heard in this step iff one of its datagrams parses to a sv_refreshing frame *)
Definition heard (inbox : list (N * list N)) (addr : N) : bool :=
  existsb (fun p => (fst p =? addr) && match read_frame (snd p) with Ok (Some f) => sv_refreshing f | _ => false end) inbox.

Lemma la_frames_closed now : forall inbox LA addr, la_frames inbox LA now addr = if heard inbox addr then now else LA addr.
Proof.
  induction inbox as [|[ad bytes] rest IH]; intros LA addr; cbn [la_frames heard existsb fst snd]; [reflexivity|].
  fold (heard rest addr). destruct (read_frame bytes) as [[f|]| |]; rewrite IH, ?andb_false_r; cbn [orb]; try reflexivity.
  unfold la_frame, updN. destruct (sv_refreshing f); rewrite ?andb_false_r, ?andb_true_r; cbn [orb]; [|reflexivity].
  rewrite (N.eqb_sym ad addr). destruct (addr =? ad); cbn [orb]; [destruct (heard rest addr); reflexivity|reflexivity].
Qed.

(* ---------- a whole step ---------- *)
Theorem server_step_AI s LA vnow inbox nonces s' evs sends rest :
  WF s -> AInv s LA -> server_step s vnow inbox nonces = Ok (s', evs, sends, rest) ->
  AInv s' (la_frames inbox LA (vnow - sv_t0 s)) /\ WF s' /\ sv_cfg s' = sv_cfg s.
Proof.
  intros W I E. cut (AInv s' (la_frames inbox LA (vnow - sv_t0 s)) /\ sv_cfg s' = sv_cfg s).
  { intros [A C]. split; [exact A|]. split; [exact (proj1 (server_step_grammar 0 _ _ _ _ _ _ _ _ E W))|exact C]. }
  unfold server_step in E. set (now := vnow - sv_t0 s) in *.
  destruct (sv_flush_active (sv_active s) s _) as [[s1 a1]| |] eqn:E1; cbn [bind fst snd] in E; try discriminate.
  pose proof (sv_flush_active_K _ _ _ _ E1) as K1. destruct (sv_flush_active_good 0 _ _ _ _ E1 W) as [W1 _]. cbn [fst] in K1, W1.
  destruct (sv_handle_frames inbox s1 a1 now vnow) as [[s2 a2]| |] eqn:E2; cbn [bind fst snd] in E; try discriminate.
  destruct (handle_frames_AI _ _ _ _ _ _ _ W1 (K_AI _ _ _ K1 I) E2) as (I2 & W2 & C2). cbn [fst] in I2, W2, C2.
  destruct (sv_pop_events _ s2 a2 now) as [[s3 a3]| |] eqn:E3; cbn [bind fst snd] in E; try discriminate.
  pose proof (sv_pop_events_K _ _ _ _ _ E3) as K3. cbn [fst] in K3.
  pose proof (sv_active_timeouts_K now (sv_active s3) s3 a3) as K4.
  destruct (sv_active_timeouts (sv_active s3) s3 a3 now) as [s4 a4]. cbn [fst] in K4.
  match type of E with context [sv_step_active _ ?S5 _ _ _] => set (s5 := S5) in * end.
  assert (K5 : KD s4 s5) by (apply K_same_objs; reflexivity).
  destruct (sv_step_active (sv_active s5) s5 a4 now vnow) as [[s6 a6]| |] eqn:E6; cbn [bind fst snd] in E; try discriminate.
  pose proof (sv_step_active_K _ _ _ _ _ _ E6) as K6. cbn [fst] in K6. inversion E; subst.
  assert (K36 : KD s2 s') by (eapply K_trans; [exact K3|]; eapply K_trans; [exact K4|]; eapply K_trans; [exact K5|exact K6]).
  split; [eapply K_AI; [exact K36|exact I2]|]. rewrite (proj1 K36), C2. exact (proj1 K1).
Qed.

(* ---------- whole histories ---------- *)
Definition astep (st : server * (N -> N)) (o : sv_op) : server * (N -> N) :=
  let '(s, LA) := st in
  match o with
  | SvStep vnow inbox nonces =>
      match server_step s vnow inbox nonces with
      | Ok (s', _, _, _) => (s', la_frames inbox LA (vnow - sv_t0 s))
      | _ => (s, LA)
      end
  | _ => (sv_apply s o, LA)
  end.

Lemma astep_fst st o : fst (astep st o) = sv_apply (fst st) o.
Proof.
  destruct st as [s LA]. destruct o as [vnow inbox nonces| | | |]; cbn [astep sv_apply fst]; try reflexivity.
  destruct (server_step s vnow inbox nonces) as [[[[s' e] sd] r]| |]; reflexivity.
Qed.

Lemma astep_inv st o : WF (fst st) /\ AInv (fst st) (snd st) ->
  (WF (fst (astep st o)) /\ AInv (fst (astep st o)) (snd (astep st o))) /\ sv_cfg (fst (astep st o)) = sv_cfg (fst st).
Proof.
  destruct st as [s LA]. cbn [fst snd]. intros [W I]. destruct o as [vnow inbox nonces| |addr|addr d ch m|addr nw]; cbn [astep].
  - destruct (server_step s vnow inbox nonces) as [[[[s' e] sd] r]| |] eqn:E; cbn [fst snd]; try (split; [split; assumption|reflexivity]).
    destruct (server_step_AI _ _ _ _ _ _ _ _ _ W I E) as (I' & W' & C'). split; [split; assumption|assumption].
  - cbn [fst snd sv_apply]. destruct (server_flush s) as [[s' sd]| |] eqn:E; try (split; [split; assumption|reflexivity]).
    pose proof (proj1 (server_flush_grammar 0 _ _ _ E W)) as W'.
    unfold server_flush in E. destruct (sv_flush_active (sv_active s) s _) as [[s1 a1]| |] eqn:E1; cbn [bind fst snd] in E; try discriminate.
    inversion E; subst. pose proof (sv_flush_active_K _ _ _ _ E1) as K1. cbn [fst] in K1.
    split; [split; [exact W'|eapply K_AI; [exact K1|exact I]]|exact (proj1 K1)].
  - cbn [fst snd sv_apply]. pose proof (proj1 (server_drop_grammar 0 s addr W)) as W'.
    assert (K1 : KD s (server_drop s addr)).
    { unfold server_drop. destruct (sv_lookup s addr) as [id|]; [|apply K_refl].
      eapply K_trans; [|apply K_remove]. apply K_set_obj. cbn [deadline_of]. intros ? HH; discriminate HH. }
    split; [split; [exact W'|eapply K_AI; [exact K1|exact I]]|exact (proj1 K1)].
  - cbn [fst snd sv_apply]. pose proof (proj1 (server_client_send_grammar 0 s addr d ch m W)) as W'.
    assert (K1 : KD s (server_client_send s addr d ch m)).
    { unfold server_client_send. destruct (sv_lookup s addr) as [id|]; [|apply K_refl].
      destruct (so_state (sv_obj_get s id)) eqn:Es; try apply K_refl. kset Es. }
    split; [split; [exact W'|eapply K_AI; [exact K1|exact I]]|exact (proj1 K1)].
  - cbn [fst snd sv_apply]. pose proof (proj1 (server_client_disconnect_grammar 0 s addr nw W)) as W'.
    assert (K1 : KD s (server_client_disconnect s addr nw)).
    { unfold server_client_disconnect. destruct (sv_lookup s addr) as [id|]; [|apply K_refl].
      destruct (so_state (sv_obj_get s id)) eqn:Es; try apply K_refl. kset Es. }
    split; [split; [exact W'|eapply K_AI; [exact K1|exact I]]|exact (proj1 K1)].
Qed.

Lemma server_new_WF cfg t0 seed : WF (server_new cfg t0 seed).
Proof.
  constructor; cbn [server_new sv_clients sv_objs]; [constructor|constructor|]. intros id Hid. unfold len in Hid. cbn in Hid. lia.
Qed.

(* every history: an established connection's deadline is (server clock of the last step that heard a sv_refreshing
   frame from its address) + active_timeout_ms *)
Theorem server_active_deadline_history cfg t0 seed ops :
  let st := fold_left astep ops (server_new cfg t0 seed, fun _ => 0) in
  fst st = fold_left sv_apply ops (server_new cfg t0 seed) /\
  forall id h c0 to d, so_state (sv_obj_get (fst st) id) = SvActive h c0 to d ->
    to = snd st (so_addr (sv_obj_get (fst st) id)) + ec_active_timeout (svc_ec cfg).
Proof.
  cbv zeta.
  assert (H : forall st, WF (fst st) /\ AInv (fst st) (snd st) ->
                         (WF (fst (fold_left astep ops st)) /\ AInv (fst (fold_left astep ops st)) (snd (fold_left astep ops st))) /\
                         fst (fold_left astep ops st) = fold_left sv_apply ops (fst st) /\
                         sv_cfg (fst (fold_left astep ops st)) = sv_cfg (fst st)).
  { induction ops as [|o t IH]; intros st HI; cbn [fold_left]; [auto|].
    destruct (astep_inv st o HI) as [HI' C']. destruct (IH (astep st o) HI') as (A & B & C). split; [exact A|].
    split; [rewrite B, astep_fst; reflexivity|congruence]. }
  destruct (H (server_new cfg t0 seed, fun _ => 0)) as ((W & I) & E & C).
  { cbn [fst snd]. split; [apply server_new_WF|]. intros id to Hd. unfold sv_obj_get in Hd. cbn [server_new sv_objs] in Hd.
    destruct (N.to_nat id); cbn in Hd; discriminate Hd. }
  cbn [fst] in E, C. split; [exact E|]. intros id h c0 to d Es. specialize (I id to). rewrite Es in I. cbn [deadline_of] in I.
  rewrite (I eq_refl). unfold ato. rewrite C. reflexivity.
Qed.

(* ---------- the timeout pass of step() ---------- *)
Definition timeout_ev (s : server) (ids : list N) (now : N) (e : ep_event) : Prop :=
  match e with
  | EvReceive _ _ => True
  | EvError ad k => k = 0 /\ exists id to, In id ids /\ so_addr (sv_obj_get s id) = ad /\
                                         deadline_of (so_state (sv_obj_get s id)) = Some to /\ to <= now
  | _ => False
  end.

Lemma fin_after_forget s id addr j :
  id < len (sv_objs s) ->
  so_addr (sv_obj_get (sv_remove_addr (sv_set_obj s id SvFin) addr) j) = so_addr (sv_obj_get s j) /\
  so_state (sv_obj_get (sv_remove_addr (sv_set_obj s id SvFin) addr) j) = if j =? id then SvFin else so_state (sv_obj_get s j).
Proof.
  intros Hr. change (sv_obj_get (sv_remove_addr (sv_set_obj s id SvFin) addr) j) with (sv_obj_get (sv_set_obj s id SvFin) j).
  split; [apply set_obj_addr|]. destruct (N.eqb_spec j id) as [->|Hne].
  - rewrite obj_get_set_same by exact Hr. reflexivity.
  - rewrite obj_get_set_other by exact Hne. reflexivity.
Qed.

Lemma active_timeouts_spec now : forall ids s a,
  (forall j, so_addr (sv_obj_get (fst (sv_active_timeouts ids s a now)) j) = so_addr (sv_obj_get s j)) /\
  (forall j, (forall to, deadline_of (so_state (sv_obj_get s j)) = Some to -> In j ids -> now < to) ->
             so_state (sv_obj_get (fst (sv_active_timeouts ids s a now)) j) = so_state (sv_obj_get s j)) /\
  (forall j to, In j ids -> deadline_of (so_state (sv_obj_get s j)) = Some to -> to <= now ->
                so_state (sv_obj_get (fst (sv_active_timeouts ids s a now)) j) = SvFin /\
                In (EvError (so_addr (sv_obj_get s j)) 0) (ac_events (snd (sv_active_timeouts ids s a now)))) /\
  (exists evs, ac_events (snd (sv_active_timeouts ids s a now)) = ac_events a ++ evs /\ Forall (timeout_ev s ids now) evs).
Proof.
  induction ids as [|id rest IH]; intros s a; cbn [sv_active_timeouts].
  - cbn [fst snd]. split; [reflexivity|]. split; [reflexivity|]. split; [intros j to []|]. exists []. rewrite app_nil_r. split; [reflexivity|constructor].
  - assert (Skip : (forall to, deadline_of (so_state (sv_obj_get s id)) = Some to -> now < to) ->
       (forall j, so_addr (sv_obj_get (fst (sv_active_timeouts rest s a now)) j) = so_addr (sv_obj_get s j)) /\
       (forall j, (forall to, deadline_of (so_state (sv_obj_get s j)) = Some to -> In j (id :: rest) -> now < to) ->
                  so_state (sv_obj_get (fst (sv_active_timeouts rest s a now)) j) = so_state (sv_obj_get s j)) /\
       (forall j to, In j (id :: rest) -> deadline_of (so_state (sv_obj_get s j)) = Some to -> to <= now ->
                     so_state (sv_obj_get (fst (sv_active_timeouts rest s a now)) j) = SvFin /\
                     In (EvError (so_addr (sv_obj_get s j)) 0) (ac_events (snd (sv_active_timeouts rest s a now)))) /\
       (exists evs, ac_events (snd (sv_active_timeouts rest s a now)) = ac_events a ++ evs /\ Forall (timeout_ev s (id :: rest) now) evs)).
    { intros Hnd. destruct (IH s a) as (A1 & A2 & A3 & evs & A4 & A5). split; [exact A1|]. split; [|split].
      - intros j Hj. apply A2. intros to Hd Hin. apply (Hj to Hd). right. exact Hin.
      - intros j to [->|Hin] Hd Hle; [specialize (Hnd to Hd); lia|]. exact (A3 j to Hin Hd Hle).
      - exists evs. split; [exact A4|]. eapply Forall_impl; [|exact A5]. intros e He. destruct e; cbn [timeout_ev] in *; try exact He.
        destruct He as (Hk & i & to & Hin & R). split; [exact Hk|]. exists i, to. split; [right; exact Hin|exact R]. }
    destruct (so_state (sv_obj_get s id)) eqn:Es; try (apply Skip; cbn [deadline_of]; intros ? HH; discriminate HH).
    destruct (N.leb_spec timeout_time now) as [Hdue|Hnot]; [|apply Skip; cbn [deadline_of]; intros ? HH; inversion HH; subst; exact Hnot].
    destruct (hc_receive h) as [h' pkts].
    assert (Hr : id < len (sv_objs s)) by (apply obj_range; rewrite Es; discriminate).
    set (addr := so_addr (sv_obj_get s id)). set (s1 := sv_remove_addr (sv_set_obj s id SvFin) addr).
    set (a1 := acc_event (acc_events a addr pkts) (EvError addr 0)).
    destruct (IH s1 a1) as (A1 & A2 & A3 & evs & A4 & A5).
    assert (F : forall j, so_addr (sv_obj_get s1 j) = so_addr (sv_obj_get s j) /\
                          so_state (sv_obj_get s1 j) = if j =? id then SvFin else so_state (sv_obj_get s j))
      by (intros j; apply fin_after_forget; exact Hr).
    assert (Ev1 : In (EvError addr 0) (ac_events a1)).
    { unfold a1, acc_event, acc_events. cbn [ac_events]. apply in_or_app. right. left. reflexivity. }
    split; [intros j; rewrite A1; exact (proj1 (F j))|]. split; [|split].
    + intros j Hj. destruct (N.eqb_spec j id) as [->|Hne].
      * exfalso. specialize (Hj timeout_time). rewrite Es in Hj. specialize (Hj eq_refl (or_introl eq_refl)). lia.
      * rewrite A2.
        -- destruct (F j) as [_ F2]. rewrite (proj2 (N.eqb_neq _ _) Hne) in F2. exact F2.
        -- intros to Hd Hin. destruct (F j) as [_ F2]. rewrite (proj2 (N.eqb_neq _ _) Hne) in F2. rewrite F2 in Hd.
           apply (Hj to Hd). right. exact Hin.
    + intros j to Hin Hd Hle. destruct (N.eqb_spec j id) as [->|Hne].
      * split.
        -- rewrite A2; [destruct (F id) as [_ F2]; rewrite N.eqb_refl in F2; exact F2|].
           intros to' Hd'. destruct (F id) as [_ F2]. rewrite N.eqb_refl in F2. rewrite F2 in Hd'. discriminate Hd'.
        -- rewrite A4. apply in_or_app. left. exact Ev1.
      * destruct Hin as [E|Hin]; [exfalso; apply Hne; symmetry; exact E|].
        destruct (F j) as [F1 F2]. rewrite (proj2 (N.eqb_neq _ _) Hne) in F2.
        assert (Hd1 : deadline_of (so_state (sv_obj_get s1 j)) = Some to) by (rewrite F2; exact Hd).
        destruct (A3 j to Hin Hd1 Hle) as [B1 B2]. split; [exact B1|]. rewrite <- F1. exact B2.
    + exists (map (EvReceive addr) pkts ++ [EvError addr 0] ++ evs). split.
      * rewrite A4. unfold a1, acc_event, acc_events. cbn [ac_events]. rewrite <- !app_assoc. reflexivity.
      * apply Forall_app. split; [apply Forall_forall; intros e He; apply in_map_iff in He as [p [<- _]]; exact Logic.I|].
        apply Forall_app. split.
        -- constructor; [|constructor]. cbn [timeout_ev]. split; [reflexivity|]. exists id, timeout_time.
           split; [left; reflexivity|]. split; [reflexivity|]. rewrite Es. split; [reflexivity|exact Hdue].
        -- eapply Forall_impl; [|exact A5]. intros e He. destruct e; cbn [timeout_ev] in *; try exact He.
           destruct He as (Hk & i & to & Hin & Ea & Hd & Hle). split; [exact Hk|]. exists i, to. split; [right; exact Hin|].
           destruct (F i) as [F1 F2]. destruct (N.eqb_spec i id) as [->|Hne]; [rewrite F2 in Hd; discriminate Hd|].
           rewrite F2 in Hd. rewrite F1 in Ea. split; [exact Ea|]. split; [exact Hd|exact Hle].
Qed.

(* With the invariant: the pass reports Error(Timeout) for a listed established connection exactly when no sv_refreshing
   frame from its address has been heard for active_timeout_ms — not before, and in this very pass once it is so. *)
Theorem server_active_timeout_rule s LA ids a now :
  AInv s LA ->
  let r := sv_active_timeouts ids s a now in
  (forall j h c0 to d, so_state (sv_obj_get s j) = SvActive h c0 to d ->
     let addr := so_addr (sv_obj_get s j) in
     (now < LA addr + ato s -> so_state (sv_obj_get (fst r) j) = SvActive h c0 to d) /\
     (In j ids -> LA addr + ato s <= now ->
        so_state (sv_obj_get (fst r) j) = SvFin /\ In (EvError addr 0) (ac_events (snd r)))) /\
  (exists evs, ac_events (snd r) = ac_events a ++ evs /\
     forall ad k, In (EvError ad k) evs ->
       k = 0 /\ LA ad + ato s <= now /\ exists j, In j ids /\ so_addr (sv_obj_get s j) = ad /\ deadline_of (so_state (sv_obj_get s j)) <> None).
Proof.
  intros I r. destruct (active_timeouts_spec now ids s a) as (A1 & A2 & A3 & evs & A4 & A5). fold r in A1, A2, A3, A4. split.
  - intros j h c0 to d Es addr. assert (Hd : deadline_of (so_state (sv_obj_get s j)) = Some to) by (rewrite Es; reflexivity).
    pose proof (I j to Hd) as Eto. fold addr in Eto. split.
    + intros Hlt. rewrite A2; [exact Es|]. intros to' Hd' _. rewrite Hd in Hd'. inversion Hd'; subst to'. lia.
    + intros Hin Hle. apply (A3 j to Hin Hd). lia.
  - exists evs. split; [exact A4|]. intros ad k Hin. rewrite Forall_forall in A5. specialize (A5 _ Hin). cbn [timeout_ev] in A5.
    destruct A5 as (Hk & j & to & Hj & Ea & Hd & Hle). split; [exact Hk|]. pose proof (I j to Hd) as Eto. rewrite Ea in Eto.
    split; [lia|]. exists j. split; [exact Hj|]. split; [exact Ea|]. rewrite Hd. discriminate.
Qed.

(* ---------- every established entry is in the list the timeout pass walks ---------- *)
Definition AL (s : server) : Prop := forall id, sv_is_active s id = true -> In id (sv_active s).

Lemma is_active_deadline s id : sv_is_active s id = true <-> exists to, deadline_of (so_state (sv_obj_get s id)) = Some to.
Proof.
  unfold sv_is_active. destruct (so_state (sv_obj_get s id)); cbn [deadline_of]; split; intros H; try discriminate H;
    try (destruct H as [? H]; discriminate H); try reflexivity. eexists; reflexivity.
Qed.

Lemma KD_active s s' id : KD s s' -> sv_is_active s' id = true -> sv_is_active s id = true.
Proof. intros [_ H] Ha. apply is_active_deadline in Ha as [to Hd]. apply is_active_deadline. exists to. exact (proj1 (H id to Hd)). Qed.

(* nothing becomes active, the list is kept *)
Lemma AL_keep s s' : KD s s' -> sv_active s' = sv_active s -> AL s -> AL s'.
Proof. intros Kd E H id Ha. rewrite E. apply H. eapply KD_active; eassumption. Qed.

Lemma AL_gen s s' : AL s -> (forall id, sv_is_active s' id = true -> sv_is_active s id = true \/ In id (sv_active s')) ->
  incl (sv_active s) (sv_active s') -> AL s'.
Proof. intros H Hs Hi id Ha. destruct (Hs id Ha) as [H0|H0]; [apply Hi, H, H0|exact H0]. Qed.

Lemma set_obj_active s id st j : sv_is_active (sv_set_obj s id st) j = true ->
  (j = id /\ id < len (sv_objs s) /\ deadline_of st <> None) \/ sv_is_active s j = true.
Proof.
  intros Ha. destruct (N.lt_ge_cases id (len (sv_objs s))) as [Hin|Hout].
  - destruct (N.eq_dec j id) as [->|Hne].
    + left. split; [reflexivity|]. split; [exact Hin|]. unfold sv_is_active in Ha. rewrite obj_get_set_same in Ha by exact Hin.
      cbn [so_state] in Ha. destruct st; cbn [deadline_of]; discriminate.
    + right. unfold sv_is_active in *. rewrite obj_get_set_other in Ha by exact Hne. exact Ha.
  - right. unfold sv_is_active, sv_obj_get in *. rewrite set_obj_out_of_range in Ha by exact Hout. exact Ha.
Qed.

Lemma handle_frame_AL s a addr f now vnow r : AL s -> sv_handle_frame s a addr f now vnow = Ok r -> AL (fst r).
Proof.
  intros H E.
  assert (Hhc : forall r0, sv_handle_hc_frame s a addr f now = Ok r0 -> AL (fst r0)).
  { intros r0 E0. pose proof (handle_hc_frame_nogrow _ _ _ _ _ _ E0) as (_ & Ea & _). unfold sv_handle_hc_frame in E0.
    destruct (sv_lookup s addr) as [id|]; [|inversion E0; exact H].
    destruct (so_state (sv_obj_get s id)) eqn:Es; try (inversion E0; exact H).
    destruct (hc_handle_frame h f) as [[h' x]| |]; cbn [bind fst snd] in E0; try discriminate. inversion E0; subst r0. cbn [fst] in *.
    apply (AL_gen s); [exact H| |rewrite Ea; apply incl_refl]. intros j Ha. left. apply set_obj_active in Ha as [(-> & _ & _)|Ha]; [|exact Ha].
    unfold sv_is_active. rewrite Es. reflexivity. }
  destruct f; cbn [sv_handle_frame] in E; try (apply Hhc; exact E); inversion E; cbn [fst]; try exact H.
  - eapply AL_keep; [apply handle_syn_K| |exact H]. unfold sv_handle_syn. destruct (sv_lookup s addr); [reflexivity|].
    destruct (negb _); [reflexivity|]. destruct (_ || _); [reflexivity|]. destruct (_ <? _); [reflexivity|]. destruct (_ <? _); reflexivity.
  - unfold sv_handle_ack. destruct (sv_lookup s addr) as [id|]; [|exact H].
    destruct (so_state (sv_obj_get s id)) eqn:Es; cbn [fst]; try exact H.
    + destruct (_ && _); cbn [fst]; [|exact H]. intros j Ha. cbn [sv_active sv_set_obj]. apply in_or_app.
      change (sv_is_active (sv_set_obj s id (SvActive (hc_new (hc_config_of (svc_ec (sv_cfg s)) local_nonce remote_nonce remote_max_receive_rate remote_max_receive_alloc) (sv_seed s)) vnow (now + ec_active_timeout (svc_ec (sv_cfg s))) None)) j = true) in Ha.
      apply set_obj_active in Ha as [(-> & _ & _)|Ha]; [right; left; reflexivity|left; apply H; exact Ha].
    + apply (AL_gen s); [exact H| |apply incl_refl]. intros j Ha. left. apply set_obj_active in Ha as [(-> & _ & _)|Ha]; [|exact Ha].
      unfold sv_is_active. rewrite Es. reflexivity.
  - eapply AL_keep; [apply handle_disconnect_K|exact (proj1 (proj2 (handle_disconnect_nogrow _ _ _ _)))|exact H].
  - eapply AL_keep; [apply handle_disconnect_ack_K|exact (proj1 (proj2 (handle_disconnect_ack_nogrow _ _ _)))|exact H].
Qed.

Lemma handle_frames_AL now vnow : forall inbox s a r, AL s -> sv_handle_frames inbox s a now vnow = Ok r -> AL (fst r).
Proof.
  induction inbox as [|[addr bytes] rest IH]; intros s a r H E; cbn [sv_handle_frames] in E; [inversion E; exact H|].
  destruct (read_frame bytes) as [[f|]| |]; cbn [bind] in E; try discriminate; [|eapply IH; eassumption].
  destruct (sv_handle_frame s a addr f now vnow) as [[s1 a1]| |] eqn:E1; cbn [bind fst snd] in E; try discriminate.
  eapply IH; [|exact E]. exact (handle_frame_AL _ _ _ _ _ _ _ H E1).
Qed.

Lemma pop_events_active now : forall fuel s a r, sv_pop_events fuel s a now = Ok r -> sv_active (fst r) = sv_active s.
Proof.
  induction fuel as [|f IH]; intros s a r E; cbn [sv_pop_events] in E; [discriminate|].
  destruct (heap_peek (sv_events s)) as [ev|]; [|inversion E; reflexivity].
  destruct (now <? rq_time ev); [inversion E; reflexivity|].
  destruct (heap_pop (sv_events s)) as [[ev' rest]|]; [|discriminate].
  match type of E with context [sv_handle_event ?S1 a ev' now] => pose proof (handle_event_nogrow S1 a ev' now) as (_ & Ea & _);
    destruct (sv_handle_event S1 a ev' now) as [s2 a2]; cbn [fst] in Ea end.
  rewrite (IH _ _ _ E), Ea. reflexivity.
Qed.

(* the state the timeout pass of a step runs on: both invariants hold there, the pass walks sv_active of that state,
   and the step's events are those accumulated up to the pass, those of the pass and Receive events after it *)
Theorem server_step_pass s LA vnow inbox nonces s' evs sends rest :
  WF s -> AInv s LA -> AL s -> server_step s vnow inbox nonces = Ok (s', evs, sends, rest) ->
  let now := vnow - sv_t0 s in
  exists s3 a3, WF s3 /\ AInv s3 (la_frames inbox LA now) /\ AL s3 /\ ato s3 = ato s /\
    let r4 := sv_active_timeouts (sv_active s3) s3 a3 now in
    KD (fst r4) s' /\ (exists tl, evs = ac_events (snd r4) ++ tl) /\ AL s'.
Proof.
  intros W I L E now. unfold server_step in E. fold now in E.
  destruct (sv_flush_active (sv_active s) s _) as [[s1 a1]| |] eqn:E1; cbn [bind fst snd] in E; try discriminate.
  pose proof (sv_flush_active_K _ _ _ _ E1) as K1. destruct (sv_flush_active_good 0 _ _ _ _ E1 W) as [W1 _]. cbn [fst] in K1, W1.
  pose proof (flush_active_nogrow _ _ _ _ E1) as (_ & A1 & _). cbn [fst] in A1.
  pose proof (AL_keep _ _ K1 A1 L) as L1.
  destruct (sv_handle_frames inbox s1 a1 now vnow) as [[s2 a2]| |] eqn:E2; cbn [bind fst snd] in E; try discriminate.
  destruct (handle_frames_AI _ _ _ _ _ _ _ W1 (K_AI _ _ _ K1 I) E2) as (I2 & W2 & C2). cbn [fst] in I2, W2, C2.
  pose proof (handle_frames_AL _ _ _ _ _ _ L1 E2) as L2. cbn [fst] in L2.
  destruct (sv_pop_events _ s2 a2 now) as [[s3 a3]| |] eqn:E3; cbn [bind fst snd] in E; try discriminate.
  pose proof (sv_pop_events_K _ _ _ _ _ E3) as K3. cbn [fst] in K3.
  destruct (sv_pop_events_good 0 _ _ _ _ _ E3 W2) as [W3 _]. cbn [fst] in W3.
  pose proof (pop_events_active _ _ _ _ _ E3) as A3. cbn [fst] in A3.
  pose proof (AL_keep _ _ K3 A3 L2) as L3.
  exists s3, a3. split; [exact W3|]. split; [eapply K_AI; [exact K3|exact I2]|]. split; [exact L3|].
  split; [unfold ato; rewrite (proj1 K3), C2, (proj1 K1); reflexivity|]. cbv zeta.
  pose proof (sv_active_timeouts_K now (sv_active s3) s3 a3) as K4.
  pose proof (active_timeouts_nogrow (sv_active s3) s3 a3 now) as (_ & A4 & _).
  destruct (sv_active_timeouts_good 0 now (sv_active s3) s3 a3 W3) as [W4 _].
  destruct (sv_active_timeouts (sv_active s3) s3 a3 now) as [s4 a4]. cbn [fst snd] in *.
  pose proof (AL_keep _ _ K4 A4 L3) as L4.
  match type of E with context [sv_step_active _ ?S5 _ _ _] => set (s5 := S5) in * end.
  assert (K5 : KD s4 s5) by (apply K_same_objs; reflexivity).
  assert (W5 : WF s5) by (eapply WF_ext; [| |exact W4]; reflexivity).
  assert (L5 : AL s5).
  { intros j Ha. change (sv_is_active s5 j) with (sv_is_active s4 j) in Ha. unfold s5. cbn [sv_active]. apply filter_In. split; [apply L4; exact Ha|exact Ha]. }
  destruct (sv_step_active (sv_active s5) s5 a4 now vnow) as [[s6 a6]| |] eqn:E6; cbn [bind fst snd] in E; try discriminate.
  pose proof (sv_step_active_K _ _ _ _ _ _ E6) as K6. cbn [fst] in K6.
  pose proof (step_active_nogrow _ _ _ _ _ _ E6) as (_ & A6 & _). cbn [fst] in A6.
  destruct (sv_step_active_good 0 _ _ _ _ _ _ E6 W5) as [_ (tl & Et & _)]. cbn [fst snd] in Et.
  inversion E; subst. split; [eapply K_trans; [exact K5|exact K6]|]. split; [exists tl; exact Et|].
  exact (AL_keep _ _ K6 A6 L5).
Qed.

(* every history: every established entry is in the active list *)
Theorem server_active_listed_history cfg t0 seed ops id :
  let s := fold_left sv_apply ops (server_new cfg t0 seed) in sv_is_active s id = true -> In id (sv_active s).
Proof.
  cbv zeta.
  assert (H : forall st, WF (fst st) /\ AInv (fst st) (snd st) -> AL (fst st) -> AL (fst (fold_left astep ops st))).
  { induction ops as [|o t IH]; intros st HI L; cbn [fold_left]; [exact L|].
    destruct (astep_inv st o HI) as [HI' _]. apply (IH _ HI'). clear IH HI'. destruct st as [s LA]. destruct HI as [W I]. cbn [fst snd] in *.
    destruct o as [vnow inbox nonces| |addr|addr d ch m|addr nw]; cbn [astep fst].
    - destruct (server_step s vnow inbox nonces) as [[[[s' e] sd] r]| |] eqn:E; cbn [fst]; try exact L.
      destruct (server_step_pass _ _ _ _ _ _ _ _ _ W I L E) as (s3 & a3 & _ & _ & _ & _ & _ & _ & L'). exact L'.
    - cbn [sv_apply]. destruct (server_flush s) as [[s' sd]| |] eqn:E; try exact L.
      unfold server_flush in E. destruct (sv_flush_active (sv_active s) s _) as [[s1 a1]| |] eqn:E1; cbn [bind fst snd] in E; try discriminate.
      inversion E; subst. eapply AL_keep; [exact (sv_flush_active_K _ _ _ _ E1)|exact (proj1 (proj2 (flush_active_nogrow _ _ _ _ E1)))|exact L].
    - cbn [sv_apply]. unfold server_drop. destruct (sv_lookup s addr) as [i|]; [|exact L].
      apply (AL_keep s); [|reflexivity|exact L]. eapply K_trans; [|apply K_remove]. apply K_set_obj. cbn [deadline_of]. intros ? HH; discriminate HH.
    - cbn [sv_apply]. unfold server_client_send. destruct (sv_lookup s addr) as [i|]; [|exact L].
      destruct (so_state (sv_obj_get s i)) eqn:Es; try exact L. apply (AL_keep s); [|reflexivity|exact L]. kset Es.
    - cbn [sv_apply]. unfold server_client_disconnect. destruct (sv_lookup s addr) as [i|]; [|exact L].
      destruct (so_state (sv_obj_get s i)) eqn:Es; try exact L. apply (AL_keep s); [|reflexivity|exact L]. kset Es. }
  assert (F : forall st, fst (fold_left astep ops st) = fold_left sv_apply ops (fst st)).
  { clear H. induction ops as [|o t IH]; intros st; cbn [fold_left]; [reflexivity|]. rewrite IH, astep_fst. reflexivity. }
  specialize (H (server_new cfg t0 seed, fun _ => 0)). rewrite F in H. cbn [fst snd] in H. intros Ha. apply H; [| |exact Ha].
  - split; [apply server_new_WF|]. intros j to Hd. unfold sv_obj_get in Hd. cbn [server_new sv_objs] in Hd. destruct (N.to_nat j); cbn in Hd; discriminate Hd.
  - intros j Hj. unfold sv_is_active, sv_obj_get in Hj. cbn [server_new sv_objs] in Hj. destruct (N.to_nat j); cbn in Hj; discriminate Hj.
Qed.

(* A whole step, put together: every entry that is established when the timeout pass of this step runs and whose
   peer has been silent for active_timeout_ms (counting this step's input) is reported with Error(Timeout) among
   the step's events and is no longer established afterwards; what is still established after the step heard its
   peer less than active_timeout_ms ago. *)
Theorem server_step_active_timeout s LA vnow inbox nonces s' evs sends rest :
  WF s -> AInv s LA -> AL s -> server_step s vnow inbox nonces = Ok (s', evs, sends, rest) ->
  let now := vnow - sv_t0 s in
  let LA' := la_frames inbox LA now in
  exists s3, AInv s3 LA' /\ AL s3 /\
    forall j, sv_is_active s3 j = true ->
      let addr := so_addr (sv_obj_get s3 j) in
      (LA' addr + ato s <= now -> In (EvError addr 0) evs /\ sv_is_active s' j = false) /\
      (sv_is_active s' j = true -> now < LA' addr + ato s).
Proof.
  intros W I L E now LA'. destruct (server_step_pass _ _ _ _ _ _ _ _ _ W I L E) as (s3 & a3 & W3 & I3 & L3 & C3 & Kd & (tl & Et) & L').
  fold now in I3, Kd, Et. fold LA' in I3. exists s3. split; [exact I3|]. split; [exact L3|]. intros j Ha addr.
  assert (Due : LA' addr + ato s <= now -> In (EvError addr 0) evs /\ sv_is_active s' j = false).
  { intros Hle. unfold sv_is_active in Ha. destruct (so_state (sv_obj_get s3 j)) eqn:Es; try discriminate Ha.
    destruct (server_active_timeout_rule s3 LA' (sv_active s3) a3 now I3) as [R _].
    destruct (R j _ _ _ _ Es) as [_ R2]. fold addr in R2. rewrite C3 in R2.
    destruct (R2 (L3 j ltac:(unfold sv_is_active; rewrite Es; reflexivity)) Hle) as [Fin Ev]. split.
    - rewrite Et. apply in_or_app. left. exact Ev.
    - destruct (sv_is_active s' j) eqn:Ea; [|reflexivity]. exfalso. pose proof (KD_active _ _ j Kd Ea) as Hb.
      unfold sv_is_active in Hb. rewrite Fin in Hb. discriminate Hb. }
  split; [exact Due|]. intros Ha'. destruct (N.lt_ge_cases now (LA' addr + ato s)) as [Hlt|Hge]; [exact Hlt|].
  destruct (Due Hge) as [_ Hf]. rewrite Hf in Ha'. discriminate Ha'.
Qed.
