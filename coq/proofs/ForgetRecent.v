(* ForgetRecent.v — C11 (the repair D21 at model level): step() only forgets sent frames that are older than
   max(4 * rtt estimate, retransmission timeout); every logged frame sent within that span is still in the log after
   the step, so an acknowledgement that arrives within one retransmission timeout finds its frame. *)
From Coq Require Import ZArith Lia ZifyBool ZifyN ZifyNat.
From UF Require Import Consts Base Frame Codec F64 Feedback Sender Receiver FrameAck Heap FrameQueue SendRate HalfConn
                       BaseLemmas SenderProofs AckProofs ReorderProofs FrameQueueProofs HcTotal.
Local Open Scope N_scope.

Lemma expiry_prefix thresh : forall frames f,
  (In f (firstn (N.to_nat (expiry_count frames thresh)) frames) -> le_time f < thresh) /\
  (In f frames -> thresh <= le_time f -> In f (skipn (N.to_nat (expiry_count frames thresh)) frames)).
Proof.
  induction frames as [|g t IH]; intros f; cbn [expiry_count].
  - cbn. split; [intros []|intros []].
  - destruct (N.ltb_spec (le_time g) thresh) as [Hlt|Hge].
    + replace (N.to_nat (1 + expiry_count t thresh)) with (S (N.to_nat (expiry_count t thresh))) by lia.
      cbn [firstn skipn]. split.
      * intros [<-|Hin]; [exact Hlt|exact (proj1 (IH f) Hin)].
      * intros [<-|Hin] Hf; [lia|exact (proj2 (IH f) Hin Hf)].
    + cbn [N.to_nat firstn skipn]. split; [intros []|intros H _; exact H].
Qed.

Lemma fq_forget_frames_frames q thresh rtt q' :
  FqInv q -> fq_forget_frames q thresh rtt = Ok q' ->
  fq_frames q' = skipn (N.to_nat (expiry_count (fq_frames q) thresh)) (fq_frames q).
Proof.
  intros [C T] E. unfold fq_forget_frames in E.
  pose proof (expiry_count_le (fq_frames q) thresh) as Hle.
  pose proof C as [H1 H2 H3 H4 H5 H6 H7 H8 H9 H10]. unfold HALF32, fq_n in *.
  assert (Ew : wrap32 (expiry_count (fq_frames q) thresh) = expiry_count (fq_frames q) thresh).
  { unfold wrap32. unfold_pows. lia. }
  rewrite Ew in E. set (d := expiry_count (fq_frames q) thresh) in *.
  destruct (N.eqb_spec d 0) as [Hz|Hd]; [inversion E; subst q'; rewrite Hz; reflexivity|].
  assert (Eo : off (fq_lbase q) (add32 (fq_lbase q) d) = d).
  { rewrite off_add32 by assumption. unfold off, sub32. unfold_pows. lia. }
  unfold fq_cull in E.
  destruct (fq_notify_advancement_inv q (add32 (fq_lbase q) d) rtt C ltac:(unfold add32; unfold_pows; lia) ltac:(unfold fq_n; lia))
    as (q1 & E1 & C1 & (S1 & S2 & S3 & S4 & S5 & S6) & F1 & B1).
  rewrite E1 in E. cbn [bind] in E. rewrite S2 in E. fold (off (fq_lbase q) (add32 (fq_lbase q) d)) in E. rewrite Eo in E.
  destruct (N.ltb_spec (len (fq_frames q1)) d) as [Hbad|_]; [discriminate|]. inversion E. cbn [fq_frames]. rewrite F1. reflexivity.
Qed.

(* what step() forgets is old, what is recent stays *)
Theorem step_remembers_recent h now h' :
  HcInv h -> hc_step h now = Ok h' ->
  let rtt := opt_default INITIAL_RTT_ESTIMATE_MS (sr_rtt_ms (h_src h)) in
  let rto := opt_default INITIAL_RTO_ESTIMATE_MS (sr_rto_ms (h_src h)) in
  exists k, fq_frames (h_fq h') = skipn k (fq_frames (h_fq h)) /\
    (forall f, In f (firstn k (fq_frames (h_fq h))) -> le_time f < now - N.max (rtt * 4) rto) /\
    (forall f, In f (fq_frames (h_fq h)) -> now - N.max (rtt * 4) rto <= le_time f -> In f (fq_frames (h_fq h'))).
Proof.
  intros [I W] E rtt rto. unfold hc_step in E. fold rtt rto in E.
  destruct (fq_forget_frames (h_fq h) (now - N.max (rtt * 4) rto) (sr_rtt_ms (h_src h))) as [q1| |] eqn:E1; cbn [bind] in E; try discriminate.
  pose proof (fq_forget_frames_frames _ _ _ _ I E1) as F1.
  assert (F2 : fq_frames (fst (fq_get_feedback q1 now)) = fq_frames q1).
  { unfold fq_get_feedback. destruct (fq_ack_data q1); reflexivity. }
  destruct (fq_get_feedback q1 now) as [q2 fb]. cbn [fst] in F2.
  destruct (src_step (h_src h) now fb) as [[src' reset]| |]; cbn [bind] in E; try discriminate.
  assert (F3 : fq_frames (h_fq h') = fq_frames q2).
  { destruct reset as [p|].
    - unfold fq_reset_loss_rate in E. destruct (li_reset (fq_li q2) p) as [li'| |]; cbn [bind] in E; try discriminate.
      inversion E; reflexivity.
    - cbn [bind] in E. inversion E; reflexivity. }
  exists (N.to_nat (expiry_count (fq_frames (h_fq h)) (now - N.max (rtt * 4) rto))).
  rewrite F3, F2, F1. split; [reflexivity|]. split.
  - intros f Hin. exact (proj1 (expiry_prefix _ _ f) Hin).
  - intros f Hin Hf. exact (proj2 (expiry_prefix _ _ f) Hin Hf).
Qed.
