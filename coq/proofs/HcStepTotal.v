(* HcStepTotal.v — step() does not panic in any reachable state: the rate controller's unwraps
   (RecvRateSet::max, rtt.unwrap()) and LossIntervalQueue::reset on an empty queue cannot fail. Together with
   HcTotal.v (frames) and HcFlushTotal.v (flush) every HalfConnection operation returns normally from every
   state that any sequence of operations can reach. *)
From Coq Require Import ZArith Lia ZifyBool ZifyN ZifyNat Floats.
From UF Require Import Consts Base Frame Codec F64 Feedback Sender Receiver FrameAck Heap FrameQueue SendRate HalfConn
                       BaseLemmas SenderProofs AckProofs ReorderProofs FrameQueueProofs SendRateProofs HcLemmas HcTotal HcFlushTotal.
Local Open Scope N_scope.

(* ---------- the rate controller ---------- *)
Definition SrTot (c : send_rate_comp) : Prop :=
  match sr_mode_ c with
  | ThroughputEqn _ => sr_recv_set c <> [] /\ exists r, sr_rtt_s c = Some r
  | _ => True
  end.

Lemma src_new_tot m : SrTot (src_new m). Proof. exact I. Qed.

Lemma notify_tot c now : SrTot c -> SrTot (src_notify_frame_sent c now) /\
  sr_prev_loss (src_notify_frame_sent c now) = sr_prev_loss c.
Proof.
  unfold SrTot, src_notify_frame_sent. destruct (sr_mode_ c) eqn:E; cbn [sr_mode_ sr_recv_set sr_rtt_s sr_prev_loss]; auto.
Qed.

Lemma src_step_total c now fb :
  SrTot c ->
  exists c' reset, src_step c now fb = Ok (c', reset) /\ SrTot c' /\
    (reset <> None -> exists f, fb = Some f /\ PrimFloat.ltb (sr_prev_loss c) (fd_loss_rate f) = true) /\
    (sr_prev_loss c' = sr_prev_loss c \/ exists f, fb = Some f /\ sr_prev_loss c' = fd_loss_rate f).
Proof.
  intros T. unfold src_step.
  destruct (sr_mode_ c) as [|tld|tcp] eqn:Em.
  - exists c, None. split; [reflexivity|]. split; [exact T|]. split; [congruence|left; reflexivity].
  - destruct fb as [f|].
    + unfold src_handle_feedback.
      destruct (update_rtt c (ms_to_s (fd_rtt_ms f))) as [rtt_s rtt_ms].
      destruct (recv_limit_ok c now f (PrimFloat.ltb (sr_prev_loss c) (fd_loss_rate f)) rtt_ms) as [es' [rl [E [Hne _]]]].
      rewrite E. cbn [bind]. rewrite Em.
      destruct (PrimFloat.ltb (sr_prev_loss c) (fd_loss_rate f)) eqn:El; cbn [bind].
      * eexists _, _. split; [reflexivity|]. split; [unfold SrTot; cbn; split; [exact Hne|eauto]|].
        split; [intros _; exists f; split; [reflexivity|exact El]|right; exists f; split; reflexivity].
      * destruct tld as [t|]; [destruct (rtt_ms <=? now - t)|]; cbn [bind]; eexists _, _; (split; [reflexivity|]);
          (split; [exact I|]); (split; [congruence|right; exists f; split; reflexivity]).
    + destruct (sr_nofeedback_exp c) as [e|].
      2:{ exists c, None. split; [reflexivity|]. split; [exact T|]. split; [congruence|left; reflexivity]. }
      destruct (e <=? now).
      2:{ exists c, None. split; [reflexivity|]. split; [exact T|]. split; [congruence|left; reflexivity]. }
      unfold src_nofeedback_expired. rewrite Em.
      destruct (sr_rtt_s c); [destruct (_ && _)|]; cbn [bind]; eexists _, _; (split; [reflexivity|]);
        (split; [exact I|]); (split; [congruence|left; reflexivity]).
  - unfold SrTot in T. rewrite Em in T. destruct T as [Hne [r Hr]].
    destruct fb as [f|].
    + unfold src_handle_feedback.
      destruct (update_rtt c (ms_to_s (fd_rtt_ms f))) as [rtt_s rtt_ms].
      destruct (recv_limit_ok c now f (PrimFloat.ltb (sr_prev_loss c) (fd_loss_rate f)) rtt_ms) as [es' [rl [E [Hne' _]]]].
      rewrite E. cbn [bind]. rewrite Em. cbn [bind].
      eexists _, _. split; [reflexivity|]. split; [unfold SrTot; cbn; split; [exact Hne'|eauto]|].
      split; [congruence|right; exists f; split; reflexivity].
    + destruct (sr_nofeedback_exp c) as [e|].
      2:{ exists c, None. split; [reflexivity|]. split; [unfold SrTot; rewrite Em; eauto|]. split; [congruence|left; reflexivity]. }
      destruct (e <=? now).
      2:{ exists c, None. split; [reflexivity|]. split; [unfold SrTot; rewrite Em; eauto|]. split; [congruence|left; reflexivity]. }
      unfold src_nofeedback_expired. rewrite Em, Hr. rewrite (rrs_max_ok _ Hne). cbn [bind].
      destruct (_ && _); cbn [bind]; eexists _, _; (split; [reflexivity|]).
      * split; [unfold SrTot; cbn; split; [exact Hne|eauto]|]. split; [congruence|left; reflexivity].
      * split; [unfold SrTot; cbn; split; [discriminate|eauto]|]. split; [congruence|left; reflexivity].
Qed.

(* ---------- the loss interval queue never becomes empty again ---------- *)
Lemma li_push_ack_nil li : li_push_ack li = [] -> li = [].
Proof. destruct li; [reflexivity|discriminate]. Qed.

Lemma li_push_nack_nonempty li t r : li_push_nack li t r <> [].
Proof.
  unfold li_push_nack. destruct li as [|i tl]; [discriminate|]. destruct (li_end i <=? t); [|discriminate].
  cbn [firstn]. discriminate.
Qed.

Lemma apply_rb_events_nil q rtt : forall ev li li', apply_rb_events q ev rtt li = Ok li' -> li' = [] -> li = [].
Proof.
  induction ev as [|[id seen] ev IH]; intros li li' E Hn; cbn [apply_rb_events] in E.
  - inversion E; subst. reflexivity.
  - destruct (fq_get_frame q id) as [f|]; [|discriminate]. specialize (IH _ _ E Hn). destruct seen.
    + apply li_push_ack_nil. exact IH.
    + exfalso. eapply li_push_nack_nonempty. exact IH.
Qed.

Definition li_mono (q q' : frame_queue) : Prop := fq_li q' = [] -> fq_li q = [].

Lemma li_mono_refl q : li_mono q q. Proof. intros H; exact H. Qed.
Lemma li_mono_trans a b c : li_mono a b -> li_mono b c -> li_mono a c.
Proof. unfold li_mono. auto. Qed.

Lemma fq_notify_ack_li q id rtt q' : fq_notify_ack q id rtt = Ok q' -> li_mono q q'.
Proof.
  unfold fq_notify_ack. destruct (rb_can_put _ _); [|intros E; inversion E; subst; apply li_mono_refl].
  destruct (rb_put _ _) as [rb' ev]. destruct (apply_rb_events q ev rtt (fq_li q)) as [li'| |] eqn:Ea; cbn [bind]; try discriminate.
  intros E. inversion E; subst. unfold li_mono. cbn [fq_set_feedback fq_li]. eapply apply_rb_events_nil. exact Ea.
Qed.

Lemma fq_notify_advancement_li q nb rtt q' : fq_notify_advancement q nb rtt = Ok q' -> li_mono q q'.
Proof.
  unfold fq_notify_advancement. destruct (rb_can_advance _ _); [|intros E; inversion E; subst; apply li_mono_refl].
  destruct (rb_advance _ _) as [rb' ev]. destruct (apply_rb_events q ev rtt (fq_li q)) as [li'| |] eqn:Ea; cbn [bind]; try discriminate.
  intros E. inversion E; subst. unfold li_mono. cbn [fq_set_feedback fq_li]. eapply apply_rb_events_nil. exact Ea.
Qed.

Lemma fq_cull_li q nb rtt q' : fq_cull q nb rtt = Ok q' -> li_mono q q'.
Proof.
  unfold fq_cull. destruct (fq_notify_advancement q nb rtt) as [q1| |] eqn:E1; cbn [bind]; try discriminate.
  destruct (len (fq_frames q1) <? _); [discriminate|]. intros E. inversion E; subst.
  eapply li_mono_trans; [eapply fq_notify_advancement_li; exact E1|]. unfold li_mono. cbn [fq_li]. auto.
Qed.

Lemma ack_apply_li base bits rtt : forall n i q s a q' s' a',
  ack_apply q s base bits i n rtt a = Ok (q', s', a') -> li_mono q q'.
Proof.
  induction n as [|n IH]; intros i q s a q' s' a' E; cbn [ack_apply] in E.
  - inversion E; subst. apply li_mono_refl.
  - destruct (fq_get_frame q (add32 base i)) as [f|]; [|discriminate].
    destruct (N.testbit bits i && negb (le_acked f)).
    + destruct (fq_notify_ack _ _ _) as [q2| |] eqn:E2; cbn [bind] in E; try discriminate.
      eapply li_mono_trans; [|eapply IH; exact E]. eapply li_mono_trans; [|eapply fq_notify_ack_li; exact E2].
      unfold li_mono. cbn [fq_set_frames fq_li]. auto.
    + eapply IH. exact E.
Qed.

Lemma fq_acknowledge_group_li q s ack rtt q' s' : fq_acknowledge_group q s ack rtt = Ok (q', s') -> li_mono q q'.
Proof.
  unfold fq_acknowledge_group. intros E.
  destruct (bitfield_size (ag_bits ack) =? 0); [inversion E; subst; apply li_mono_refl|].
  destruct (ack_check _ _ _ _ _ _); [|inversion E; subst; apply li_mono_refl].
  destruct (negb _); [inversion E; subst; apply li_mono_refl|].
  destruct (ack_apply _ _ _ _ _ _ _ _) as [[[q1 s1] a1]| |] eqn:Ea; cbn [bind] in E; try discriminate.
  pose proof (ack_apply_li _ _ _ _ _ _ _ _ _ _ _ Ea) as M.
  destruct (aa_new a1); inversion E; subst; [|exact M].
  eapply li_mono_trans; [exact M|]. unfold li_mono, fq_put_ack_data. cbn [fq_li]. auto.
Qed.

Lemma ack_groups_li rtt : forall acks q s q' s', ack_groups q s acks rtt = Ok (q', s') -> li_mono q q'.
Proof.
  induction acks as [|a t IH]; intros q s q' s' E; cbn [ack_groups] in E.
  - inversion E; subst. apply li_mono_refl.
  - destruct (fq_acknowledge_group q s a rtt) as [[q1 s1]| |] eqn:E1; cbn [bind fst snd] in E; try discriminate.
    eapply li_mono_trans; [eapply fq_acknowledge_group_li; exact E1|eapply IH; exact E].
Qed.

Lemma fq_advance_transfer_window_li q nb rtt q' : fq_advance_transfer_window q nb rtt = Ok q' -> li_mono q q'.
Proof.
  unfold fq_advance_transfer_window. destruct (fq_can_advance_transfer_window q nb); [|intros E; inversion E; subst; apply li_mono_refl].
  match goal with |- context [if ?c then _ else _] => destruct c end.
  - intros E. apply fq_cull_li in E. unfold li_mono in *. cbn [fq_li] in E. exact E.
  - intros E. inversion E; subst. unfold li_mono. cbn [fq_li]. auto.
Qed.

Lemma fq_forget_frames_li q th rtt q' : fq_forget_frames q th rtt = Ok q' -> li_mono q q'.
Proof.
  unfold fq_forget_frames. destruct (_ =? 0); [intros E; inversion E; subst; apply li_mono_refl|apply fq_cull_li].
Qed.

(* ---------- the second half of the invariant ---------- *)
Definition Q (h : hc) : Prop :=
  SrTot (h_src h) /\ (fq_li (h_fq h) = [] -> sr_prev_loss (h_src h) = f0).

Definition HcInv2 (h : hc) : Prop := HcInv h /\ Q h.

Lemma Q_ext h h' : h_src h' = h_src h -> fq_li (h_fq h') = fq_li (h_fq h) -> Q h -> Q h'.
Proof. unfold Q. intros -> ->. auto. Qed.

Lemma Q_li_mono h h' : h_src h' = h_src h -> li_mono (h_fq h) (h_fq h') -> Q h -> Q h'.
Proof. unfold Q, li_mono. intros -> M [A B]. split; [exact A|]. intros E. apply B. apply M. exact E. Qed.

Lemma hc_new_Q c seed : Q (hc_new c seed).
Proof. split; [exact I|]. intros _. reflexivity. Qed.

Lemma hc_handle_frame_Q h f h' k : hc_handle_frame h f = Ok (h', k) -> Q h -> Q h'.
Proof.
  destruct f as [v n a b c|na n a b c|na|na e| | |seq nonce dgs|nf np|fb pb acks]; cbn [hc_handle_frame]; intros E;
    try (inversion E; subst; auto; fail).
  - inversion E; subst. unfold hc_handle_data_frame. destruct (faq_contains _ _); [|auto]. apply Q_ext; reflexivity.
  - inversion E; subst. unfold hc_handle_sync_frame. apply Q_ext; destruct nf, np; reflexivity.
  - destruct (hc_handle_ack_frame h fb pb acks) as [h1| |] eqn:Ea; cbn [bind] in E; try discriminate. inversion E; subst.
    unfold hc_handle_ack_frame in Ea.
    destruct (ack_groups _ _ _ _) as [[q1 s1]| |] eqn:E1; cbn [bind fst snd] in Ea; try discriminate.
    destruct (fq_advance_transfer_window q1 fb _) as [q2| |] eqn:E2; cbn [bind] in Ea; try discriminate.
    destruct (sender_acknowledge s1 pb) as [s2| |]; cbn [bind] in Ea; try discriminate. inversion Ea; subst.
    apply Q_li_mono; [reflexivity|]. cbn [set_snd set_fq h_fq].
    eapply li_mono_trans; [eapply ack_groups_li; exact E1|eapply fq_advance_transfer_window_li; exact E2].
Qed.

Lemma ltb_f0_f0 : PrimFloat.ltb f0 f0 = false. Proof. vm_compute. reflexivity. Qed.

(* step(): total, and keeps both halves of the invariant *)
Theorem hc_step_total h now : HcInv2 h -> exists h', hc_step h now = Ok h' /\ HcInv2 h'.
Proof.
  intros [[I W] [T J]]. unfold hc_step.
  destruct (fq_forget_frames_total (h_fq h) (now - N.max (opt_default INITIAL_RTT_ESTIMATE_MS (sr_rtt_ms (h_src h)) * 4) (opt_default INITIAL_RTO_ESTIMATE_MS (sr_rto_ms (h_src h))))
              (sr_rtt_ms (h_src h)) I) as (q1 & E1 & I1).
  rewrite E1. cbn [bind]. pose proof (fq_forget_frames_li _ _ _ _ E1) as M1.
  pose proof (fq_get_feedback_inv q1 now I1) as I2.
  assert (Hfb : fq_li (fst (fq_get_feedback q1 now)) = fq_li q1 /\
                forall f, snd (fq_get_feedback q1 now) = Some f -> fd_loss_rate f = li_loss_rate (fq_li q1)).
  { unfold fq_get_feedback. destruct (fq_ack_data q1); cbn [fst snd fq_li]; split; try reflexivity; intros f Hf; inversion Hf; reflexivity. }
  destruct (fq_get_feedback q1 now) as [q2 fb]. cbn [fst snd] in I2, Hfb. destruct Hfb as [Hli Hloss].
  destruct (src_step_total (h_src h) now fb T) as (src' & reset & Es & T' & Hreset & Hprev).
  rewrite Es. cbn [bind].
  assert (Jnew : fq_li q1 = [] -> sr_prev_loss src' = f0).
  { intros Hn. destruct Hprev as [->|(f & -> & ->)]; [apply J, M1, Hn|]. rewrite (Hloss f eq_refl), Hn. reflexivity. }
  destruct reset as [p|].
  - destruct (Hreset ltac:(discriminate)) as (f & -> & Hlt).
    assert (Hne : fq_li q2 <> []).
    { rewrite Hli. intros Hn. rewrite (Hloss f eq_refl), Hn, (J (M1 Hn)) in Hlt. cbn [li_loss_rate] in Hlt.
      rewrite ltb_f0_f0 in Hlt. discriminate. }
    unfold fq_reset_loss_rate, li_reset. destruct (fq_li q2) as [|i t] eqn:El; [contradiction|]. cbn [bind].
    eexists. split; [reflexivity|]. split; [split|split]; cbn [h_fq h_snd h_src].
    + revert I2. apply FqInv_ext; reflexivity.
    + exact W.
    + exact T'.
    + cbn [fq_set_feedback fq_li]. discriminate.
  - cbn [bind]. eexists. split; [reflexivity|]. split; [split|split]; cbn [h_fq h_snd h_src]; try assumption.
    rewrite Hli. exact Jnew.
Qed.

(* ---------- flush keeps any property that its few state updates keep ---------- *)
Section EmitKeeps.
  Variable P : hc -> Prop.
  Hypothesis P_rq : forall h rq, P h -> P (set_rq h rq).
  Hypothesis P_pq : forall h pq, P h -> P (set_pq h pq).
  Hypothesis P_emit : forall h, P h -> P (set_snd h (fst (sender_emit_packet (h_snd h) (h_flush_id h)))).
  Hypothesis P_fin : forall e, P (es_h e) -> P (es_h (dfe_finalize e)).
  Hypothesis P_mark : forall e, P (es_h e) -> P (es_h (mark_rate_limited e)).

  Let PE (e : emit_state) : Prop := P (es_h e).

  Lemma g_push_new e dg ref resend : PE e -> PE (fst (dfe_push_new e dg ref resend)).
  Proof.
    intros H. unfold dfe_push_new. destruct (h_credit (es_h e) <? 0)%Z; cbn [fst]; [apply P_mark; exact H|].
    destruct (negb _); cbn [fst]; exact H.
  Qed.

  Lemma g_push e uid frag resend e1 r : dfe_push e uid frag resend = Ok (e1, r) -> PE e -> PE e1.
  Proof.
    unfold dfe_push. intros E H. destruct (sender_lookup _ _) as [we|]; [|discriminate].
    destruct (es_ip e) as [f|].
    - destruct (h_credit (es_h e) - Z.of_N (ip_size f) <? 0)%Z.
      + inversion E; subst. apply P_mark, P_fin. exact H.
      + destruct ((MAX_FRAME_SIZE <? _) || _).
        * inversion E as [E']. pose proof (g_push_new (dfe_finalize e) (pp_datagram (we_packet we) frag) (mkFragRef uid frag) resend (P_fin e H)) as X.
          rewrite E' in X. exact X.
        * inversion E; subst. exact H.
    - inversion E as [E']. pose proof (g_push_new e (pp_datagram (we_packet we) frag) (mkFragRef uid frag) resend H) as X.
      rewrite E' in X. exact X.
  Qed.

  Lemma g_check e : PE e -> PE (fst (dfe_check_push e)).
  Proof.
    intros H. unfold dfe_check_push.
    destruct (es_ip e) as [f|]; cbv beta iota;
      (destruct (h_credit (es_h e) - Z.of_N _ <? 0)%Z; cbn [fst]; [apply P_mark, P_fin; exact H|]);
      destruct (negb _); cbn [fst]; exact H.
  Qed.

  Lemma g_resend : forall fuel e e' fl, resend_loop fuel e = Ok (e', fl) -> PE e -> PE e'.
  Proof.
    induction fuel as [|fuel IH]; intros e e' fl E H; cbn [resend_loop] in E; [discriminate|].
    destruct (heap_peek (h_rq (es_h e))) as [ent|]; [|inversion E; subst; exact H].
    destruct (sender_lookup (h_snd (es_h e)) (rq_uid ent)) as [we|].
    2:{ eapply IH; [exact E|]. apply P_rq. exact H. }
    destruct (pp_fragment_acked (we_packet we) (rq_frag ent)).
    { eapply IH; [exact E|]. apply P_rq. exact H. }
    destruct (h_now (es_h e) <? rq_time ent); [inversion E; subst; exact H|].
    destruct (dfe_push e (rq_uid ent) (rq_frag ent) true) as [[e1 r]| |] eqn:Ep; cbn [bind] in E; try discriminate.
    pose proof (g_push _ _ _ _ _ _ Ep H) as H1.
    destruct r as [[|]|]; try (inversion E; subst; exact H1).
    destruct (heap_pop (h_rq (es_h e1))) as [[ent1 rq1]|]; [|discriminate].
    eapply IH; [exact E|]. apply P_rq. exact H1.
  Qed.

  Lemma g_inner : forall fuel e e' fl, pending_inner fuel e = Ok (e', fl) -> PE e -> PE e'.
  Proof.
    induction fuel as [|fuel IH]; intros e e' fl E H; cbn [pending_inner] in E; [discriminate|].
    destruct (h_pq (es_h e)) as [|ent rest]; [inversion E; subst; exact H|].
    destruct (sender_lookup (h_snd (es_h e)) (pq_uid ent)) as [we|].
    2:{ eapply IH; [exact E|]. apply P_pq. exact H. }
    destruct (pp_fragment_acked (we_packet we) (pq_frag ent)).
    { eapply IH; [exact E|]. apply P_pq. exact H. }
    destruct (dfe_push e (pq_uid ent) (pq_frag ent) (pq_resend ent)) as [[e1 r]| |] eqn:Ep; cbn [bind] in E; try discriminate.
    pose proof (g_push _ _ _ _ _ _ Ep H) as H1.
    destruct r as [[|]|]; try (inversion E; subst; exact H1).
    eapply IH; [exact E|]. unfold PE in *. cbn [es_h]. destruct (pq_resend ent); [apply P_rq|]; apply P_pq; exact H1.
  Qed.

  Lemma g_outer : forall fuel e e' fl, pending_outer fuel e = Ok (e', fl) -> PE e -> PE e'.
  Proof.
    induction fuel as [|fuel IH]; intros e e' fl E H; cbn [pending_outer] in E; [discriminate|].
    match type of E with (do r0 <- ?X; _) = _ => destruct X as [[e2 fl2]| |] eqn:E0 end; cbn [bind] in E; try discriminate.
    assert (H2 : PE e2).
    { destruct (h_pq (es_h e)) as [|p ps]; [|inversion E0; subst; exact H].
      pose proof (g_check e H) as Hc. destruct (dfe_check_push e) as [e1 r]. cbn [fst] in Hc.
      destruct r as [[|]|].
      - inversion E0; subst. exact Hc.
      - inversion E0; subst. apply P_fin. exact Hc.
      - pose proof (P_emit (es_h e1) Hc) as Hem.
        destruct (sender_emit_packet (h_snd (es_h e1)) (h_flush_id (es_h e1))) as [s' r]. cbn [fst] in Hem.
        destruct r as [[uid resend]|].
        + destruct (sender_lookup s' uid) as [we|]; [|discriminate]. inversion E0; subst.
          unfold PE. cbn [es_h]. apply P_pq. exact Hem.
        + inversion E0; subst. unfold PE. cbn [es_h]. exact Hem. }
    destruct fl2; try (inversion E; subst; exact H2).
    destruct (pending_inner _ e2) as [[e3 fl3]| |] eqn:E3; cbn [bind] in E; try discriminate.
    pose proof (g_inner _ _ _ _ E3 H2) as H3.
    destruct fl3; try (inversion E; subst; exact H3).
    eapply IH; eassumption.
  Qed.

  Lemma g_emit_data fuel h out h' out' ok : emit_data_frames fuel h out = Ok (h', out', ok) -> P h -> P h'.
  Proof.
    unfold emit_data_frames. intros E H.
    destruct (resend_loop fuel (mkEs h None out)) as [[e fl]| |] eqn:E1; cbn [bind] in E; try discriminate.
    pose proof (g_resend _ _ _ _ E1 H) as H1.
    destruct fl; try (inversion E; subst; exact H1).
    - destruct (pending_outer fuel e) as [[e2 fl2]| |] eqn:E2; cbn [bind] in E; try discriminate.
      pose proof (g_outer _ _ _ _ E2 H1) as H2.
      destruct fl2; inversion E; subst; try exact H2; apply P_fin; exact H2.
    - destruct (pending_outer fuel e) as [[e2 fl2]| |] eqn:E2; cbn [bind] in E; try discriminate.
      pose proof (g_outer _ _ _ _ E2 H1) as H2.
      destruct fl2; inversion E; subst; try exact H2; apply P_fin; exact H2.
  Qed.
End EmitKeeps.

Lemma Q_fin e : Q (es_h e) -> Q (es_h (dfe_finalize e)).
Proof.
  unfold dfe_finalize. destruct (es_ip e) as [f|]; [|auto]. intros [T J]. cbn [es_h].
  destruct (notify_tot (h_src (es_h e)) (h_now (es_h e)) T) as [T' Ep].
  split; cbn [set_sync_base set_credit set_src set_fq h_src h_fq]; [exact T'|].
  rewrite Ep. unfold fq_push. destruct (fq_can_push _); cbn [fq_li]; exact J.
Qed.

Lemma hc_flush_Q h h' out : hc_flush h = Ok (h', out) -> Q h -> Q h'.
Proof.
  unfold hc_flush. intros E H.
  destruct (emit_ack_frames h []) as [[[h1 out1] ok1]| |] eqn:E1; cbn [bind] in E; try discriminate.
  assert (H1 : Q h1).
  { destruct (emit_ack_frames_core _ _ _ _ _ E1) as (A & _ & C & _). revert H. apply Q_ext; [exact C|rewrite A; reflexivity]. }
  destruct (negb ok1); [inversion E; subst; exact H1|].
  destruct (emit_data_frames (hc_flush_fuel h1) h1 out1) as [[[h2 out2] ok2]| |] eqn:E2; cbn [bind] in E; try discriminate.
  assert (H2 : Q h2).
  { revert H1. eapply (g_emit_data Q); try eassumption.
    - intros h0 rq. apply Q_ext; reflexivity.
    - intros h0 pq. apply Q_ext; reflexivity.
    - intros h0. apply Q_ext; reflexivity.
    - apply Q_fin.
    - intros e. apply Q_ext; reflexivity. }
  destruct (negb ok2); [inversion E; subst; exact H2|].
  destruct (emit_sync_frame_core h2 out2) as (A & _ & C & _).
  destruct (emit_sync_frame h2 out2) as [[h3 out3] ok3]. cbn [fst] in A, C. inversion E; subst.
  revert H2. apply Q_ext; [exact C|rewrite A; reflexivity].
Qed.

(* ---------- every operation, every reachable state ---------- *)
Lemma hc_apply_inv2 h o : op_ok o -> HcInv2 h -> HcInv2 (hc_apply h o).
Proof.
  intros Ho [H Hq]. split; [apply hc_apply_inv; assumption|].
  destruct o as [d c m| |now| |f]; cbn [hc_apply].
  - revert Hq. apply Q_ext; reflexivity.
  - revert Hq. unfold hc_receive. destruct (receiver_receive (h_rcv h)). apply Q_ext; reflexivity.
  - destruct (hc_step_total h now (conj H Hq)) as (h' & E & _ & Hq'). rewrite E. exact Hq'.
  - destruct (hc_flush h) as [[h' out]| |] eqn:E; [eapply hc_flush_Q; eassumption|exact Hq|exact Hq].
  - destruct (hc_handle_frame h f) as [[h' k]| |] eqn:E; [eapply hc_handle_frame_Q; eassumption|exact Hq|exact Hq].
Qed.

Theorem hc_reachable_inv2 c seed ops :
  cfg_ok c -> Forall op_ok ops -> HcInv2 (fold_left hc_apply ops (hc_new c seed)).
Proof.
  intros Hc Ho. assert (G : forall h, HcInv2 h -> HcInv2 (fold_left hc_apply ops h)).
  { induction Ho as [|o ops Ho1 Ho2 IH]; intros h H; cbn [fold_left]; [exact H|]. apply IH. apply hc_apply_inv2; assumption. }
  apply G. split; [apply hc_new_inv; exact Hc|apply hc_new_Q].
Qed.

(* what an operation returns *)
Definition hc_op_result (h : hc) (o : hc_op) : res unit :=
  match o with
  | OpSend _ _ _ | OpReceive => Ok tt
  | OpStep now => match hc_step h now with Ok _ => Ok tt | Panic s => Panic s | Hang s => Hang s end
  | OpFlush => match hc_flush h with Ok _ => Ok tt | Panic s => Panic s | Hang s => Hang s end
  | OpFrame f => match hc_handle_frame h f with Ok _ => Ok tt | Panic s => Panic s | Hang s => Hang s end
  end.

(* No operation — send, receive, step, flush, or a frame with any contents — panics or fails to terminate, in any
   state that any sequence of such operations can reach. *)
Theorem hc_never_panics_or_hangs c seed ops o :
  cfg_ok c -> Forall op_ok ops -> op_ok o ->
  hc_op_result (fold_left hc_apply ops (hc_new c seed)) o = Ok tt.
Proof.
  intros Hc Ho Hop. destruct (hc_reachable_inv2 c seed ops Hc Ho) as [H Hq].
  set (h := fold_left hc_apply ops (hc_new c seed)) in *.
  destruct o as [d ch m| |now| |f]; cbn [hc_op_result]; try reflexivity.
  - destruct (hc_step_total h now (conj H Hq)) as (h' & E & _). rewrite E. reflexivity.
  - destruct (hc_flush_total h H) as [r E]. rewrite E. reflexivity.
  - destruct (hc_handle_frame_total h f H Hop) as (h' & k & E & _). rewrite E. reflexivity.
Qed.
