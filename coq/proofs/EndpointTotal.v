(* EndpointTotal.v — Client and Server around the half-connection: no datagram, clock value or application call
   makes an endpoint panic or loop (C03), for every sequence of steps and calls. *)
From Coq Require Import ZArith Lia ZifyBool ZifyN ZifyNat.
From UF Require Import Consts Base Frame Codec F64 Feedback Sender Receiver FrameAck Heap FrameQueue SendRate HalfConn Endpoint
                       BaseLemmas CodecTotal SenderProofs FrameQueueProofs HcTotal HcFlushTotal HcStepTotal.
Local Open Scope N_scope.

(* ---------- frames read from bytes carry u32 fields ---------- *)
Definition byte (b : N) : Prop := b < 256.

Lemma get_in d i b : get d i = Ok b -> In b d.
Proof. unfold get. destruct (nth_error d (N.to_nat i)) eqn:E; [|discriminate]. intros H; inversion H; subst. eapply nth_error_In; eassumption. Qed.

Lemma get32_lt d i x : Forall byte d -> get32 d i = Ok x -> x < pow32.
Proof.
  intros Hb. unfold get32.
  destruct (get d i) as [b0| |] eqn:E0; cbn [bind]; try discriminate.
  destruct (get d (i + 1)) as [b1| |] eqn:E1; cbn [bind]; try discriminate.
  destruct (get d (i + 2)) as [b2| |] eqn:E2; cbn [bind]; try discriminate.
  destruct (get d (i + 3)) as [b3| |] eqn:E3; cbn [bind]; try discriminate.
  intros H; inversion H; subst. rewrite Forall_forall in Hb.
  apply be32_lt; apply Hb; eapply get_in; eassumption.
Qed.

Lemma firstn_In' {A} (l : list A) : forall n x, In x (firstn n l) -> In x l.
Proof. induction l as [|h t IH]; intros [|n] x H; cbn [firstn In] in *; try tauto. destruct H; [auto|right; eauto]. Qed.

Lemma skipn_In' {A} (l : list A) : forall n x, In x (skipn n l) -> In x l.
Proof. induction l as [|h t IH]; intros [|n] x H; cbn [skipn In] in *; try tauto. right; eauto. Qed.

Lemma slice_bytes d a b s : Forall byte d -> slice d a b = Ok s -> Forall byte s.
Proof.
  unfold slice. intros Hb. destruct (_ && _); [|discriminate]. intros H; inversion H; subst.
  rewrite Forall_forall in *. intros x Hx. apply Hb. apply firstn_In' in Hx. eapply skipn_In'; eassumption.
Qed.

Ltac noacks H :=
  repeat match type of H with
  | (if ?c then _ else _) = _ => destruct c
  | bind ?r _ = _ => let E := fresh "E" in destruct r eqn:E; cbn [bind] in H
  | match ?x with _ => _ end = _ => destruct x
  end; try discriminate H; try (inversion H; fail).

Lemma read_ack_payload_u32 d f : Forall byte d -> read_ack_payload d = Ok (Some f) -> frame_u32_ok f.
Proof.
  intros Hb. unfold read_ack_payload. destruct (len d <? _); [discriminate|].
  destruct (get32 d 0) as [fb| |] eqn:E0; cbn [bind]; try discriminate.
  destruct (get32 d 4) as [pb| |]; cbn [bind]; try discriminate.
  destruct (get16 d 8) as [n| |]; cbn [bind]; try discriminate.
  destruct (slice_from d _) as [ds| |]; cbn [bind]; try discriminate.
  destruct (read_frame_acks _ _ _) as [[[acks rest]|]| |]; cbn [bind]; try discriminate.
  destruct (negb _); [discriminate|]. intros H; inversion H; subst. cbn [frame_u32_ok]. eapply get32_lt; eassumption.
Qed.

Lemma read_payload_u32 ty d f : Forall byte d -> read_payload ty d = Ok (Some f) -> frame_u32_ok f.
Proof.
  intros Hb H. unfold read_payload in H.
  destruct (ty =? HANDSHAKE_SYN_FRAME_ID).
  { destruct f; try exact I. exfalso. unfold read_handshake_syn_payload in H. noacks H. }
  destruct (ty =? HANDSHAKE_SYN_ACK_FRAME_ID).
  { destruct f; try exact I. exfalso. unfold read_handshake_syn_ack_payload in H. noacks H. }
  destruct (ty =? HANDSHAKE_ACK_FRAME_ID).
  { destruct f; try exact I. exfalso. unfold read_handshake_ack_payload in H. noacks H. }
  destruct (ty =? HANDSHAKE_ERROR_FRAME_ID).
  { destruct f; try exact I. exfalso. unfold read_handshake_error_payload in H. noacks H. }
  destruct (ty =? DISCONNECT_FRAME_ID).
  { destruct f; try exact I. exfalso. unfold read_disconnect_payload in H. noacks H. }
  destruct (ty =? DISCONNECT_ACK_FRAME_ID).
  { destruct f; try exact I. exfalso. unfold read_disconnect_ack_payload in H. noacks H. }
  destruct (ty =? DATA_FRAME_ID).
  { destruct f; try exact I. exfalso. unfold read_data_payload in H. noacks H. }
  destruct (ty =? SYNC_FRAME_ID).
  { destruct f; try exact I. exfalso. unfold read_sync_payload in H. noacks H. }
  destruct (ty =? ACK_FRAME_ID); [|discriminate]. eapply read_ack_payload_u32; eassumption.
Qed.

Lemma read_frame_u32 bs f : Forall byte bs -> read_frame bs = Ok (Some f) -> frame_u32_ok f.
Proof.
  intros Hb. unfold read_frame. destruct (len bs <? 5); [discriminate|].
  destruct (slice bs 0 _) as [db| |]; cbn [bind]; try discriminate.
  destruct (get32 bs _) as [crc| |]; cbn [bind]; try discriminate.
  destruct (negb _); [discriminate|].
  destruct (slice bs 1 _) as [pl| |] eqn:Es; cbn [bind]; try discriminate.
  destruct (get bs 0) as [ty| |]; cbn [bind]; try discriminate.
  apply read_payload_u32. eapply slice_bytes; eassumption.
Qed.

(* ---------- half-connection facts in the form the endpoints use them ---------- *)
Lemma cfg_of_ok ec ln rn rmrr rmra : ln < pow32 -> cfg_ok (hc_config_of ec ln rn rmrr rmra).
Proof.
  intros H. unfold cfg_ok, hc_config_of. cbn.
  repeat split; try assumption; try (vm_compute; congruence).
  change pow20 with 1048576. apply N.mod_lt. discriminate.
Qed.

Lemma hc_new_inv2 c seed : cfg_ok c -> HcInv2 (hc_new c seed).
Proof. intros H. split; [apply hc_new_inv; exact H|apply hc_new_Q]. Qed.

Lemma hc_send_inv2 h d c m : HcInv2 h -> HcInv2 (hc_send h d c m).
Proof. intros H. exact (hc_apply_inv2 h (OpSend d c m) I H). Qed.

Lemma hc_receive_inv2 h : HcInv2 h -> HcInv2 (fst (hc_receive h)).
Proof. intros H. exact (hc_apply_inv2 h OpReceive I H). Qed.

Lemma hc_flush_total2 h : HcInv2 h -> exists h' out, hc_flush h = Ok (h', out) /\ HcInv2 h'.
Proof.
  intros [H Hq]. destruct (hc_flush_total h H) as [[h' out] E]. exists h', out. split; [exact E|].
  split; [eapply hc_flush_inv; eassumption|eapply hc_flush_Q; eassumption].
Qed.

Lemma hc_handle_frame_total2 h f : HcInv2 h -> frame_u32_ok f -> exists h' k, hc_handle_frame h f = Ok (h', k) /\ HcInv2 h'.
Proof.
  intros [H Hq] Hf. destruct (hc_handle_frame_total h f H Hf) as (h' & k & E & H'). exists h', k. split; [exact E|].
  split; [exact H'|eapply hc_handle_frame_Q; eassumption].
Qed.

(* ---------- the client ---------- *)
Definition ClInv (c : client) : Prop :=
  match cl_state_ c with
  | ClPending ln _ _ _ _ => ln < pow32
  | ClActive _ _ h _ _ _ => HcInv2 h
  | _ => True
  end.

Lemma client_connect_inv ec nonce t0 seed : nonce < pow32 -> ClInv (fst (client_connect ec nonce t0 seed)).
Proof. intros H. exact H. Qed.

Lemma client_send_inv c d ch m : ClInv c -> ClInv (client_send c d ch m).
Proof.
  unfold ClInv, client_send. destruct (cl_state_ c) eqn:E; cbn [cl_set cl_state_]; try rewrite E; auto.
  apply hc_send_inv2.
Qed.

Lemma client_disconnect_inv c now : ClInv c -> ClInv (client_disconnect c now).
Proof. unfold ClInv, client_disconnect. destruct (cl_state_ c) eqn:E; cbn [cl_set cl_state_]; try rewrite E; auto. Qed.

Lemma cl_flush_total c a : ClInv c -> exists r, cl_flush_if_active c a = Ok r /\ ClInv (fst r).
Proof.
  unfold ClInv, cl_flush_if_active. destruct (cl_state_ c) eqn:E; intros H; try (eexists; split; [reflexivity|cbn [fst]; rewrite E; exact H]).
  destruct (hc_flush_total2 h H) as (h' & out & Ef & H'). rewrite Ef. cbn [bind fst snd].
  eexists. split; [reflexivity|]. cbn [fst cl_set cl_state_]. exact H'.
Qed.

Lemma fold_send_inv2 sends : forall h, HcInv2 h ->
  HcInv2 (fold_left (fun hh (e : list N * N * send_mode) => hc_send hh (fst (fst e)) (snd (fst e)) (snd e)) sends h).
Proof. induction sends as [|e t IH]; intros h H; cbn [fold_left]; [exact H|]. apply IH. apply hc_send_inv2. exact H. Qed.

Lemma cl_handle_frame_total c a f now vnow :
  ClInv c -> frame_u32_ok f -> exists r, cl_handle_frame c a f now vnow = Ok r /\ ClInv (fst r).
Proof.
  intros H Hf. unfold ClInv in *.
  destruct f as [v n x y z|na n mrr mps mra|na|na e| | |seq nonce dgs|nf np|fb pb acks]; cbn [cl_handle_frame];
    try (eexists; split; [reflexivity|exact H]).
  - (* SYN+ACK *)
    eexists. split; [reflexivity|]. unfold cl_handle_syn_ack. destruct (cl_state_ c) eqn:E; cbn [fst]; try (rewrite E; exact H).
    + destruct (na =? local_nonce); cbn [fst cl_set cl_state_]; [|rewrite E; exact H].
      apply fold_send_inv2. apply hc_new_inv2. apply cfg_of_ok. exact H.
    + destruct (_ && _); cbn [fst cl_set cl_state_]; [exact H|rewrite E; exact H].
  - eexists. split; [reflexivity|]. unfold cl_handle_error. destruct (cl_state_ c) eqn:E; cbn [fst]; try (rewrite E; exact H).
    destruct (na =? local_nonce); cbn [fst cl_set cl_state_]; [exact I|rewrite E; exact H].
  - eexists. split; [reflexivity|]. unfold cl_handle_disconnect. destruct (cl_state_ c) eqn:E; cbn [fst]; try (rewrite E; exact H).
    + destruct (hc_receive h). cbn [fst cl_set cl_state_]. exact I.
    + cbn [cl_set cl_state_]. exact I.
  - destruct (cl_state_ c) eqn:E; eexists; (split; [reflexivity|]); cbn [fst cl_set cl_state_]; try rewrite E; try exact H; exact I.
  - destruct (cl_state_ c) eqn:E; try (eexists; split; [reflexivity|cbn [fst]; rewrite E; exact H]).
    destruct (hc_handle_frame_total2 h _ H Hf) as (h' & k & Eh & H'). rewrite Eh. cbn [bind fst].
    eexists. split; [reflexivity|]. cbn [fst cl_set cl_state_]. exact H'.
  - destruct (cl_state_ c) eqn:E; try (eexists; split; [reflexivity|cbn [fst]; rewrite E; exact H]).
    destruct (hc_handle_frame_total2 h _ H Hf) as (h' & k & Eh & H'). rewrite Eh. cbn [bind fst].
    eexists. split; [reflexivity|]. cbn [fst cl_set cl_state_]. exact H'.
  - destruct (cl_state_ c) eqn:E; try (eexists; split; [reflexivity|cbn [fst]; rewrite E; exact H]).
    destruct (hc_handle_frame_total2 h _ H Hf) as (h' & k & Eh & H'). rewrite Eh. cbn [bind fst].
    eexists. split; [reflexivity|]. cbn [fst cl_set cl_state_]. exact H'.
Qed.

Lemma cl_handle_frames_total now vnow : forall inbox c a,
  Forall (Forall byte) inbox -> ClInv c -> exists r, cl_handle_frames inbox c a now vnow = Ok r /\ ClInv (fst r).
Proof.
  induction inbox as [|bs rest IH]; intros c a Hb H; cbn [cl_handle_frames]; [eexists; split; [reflexivity|exact H]|].
  inversion Hb as [|? ? Hb1 Hb2]; subst.
  destruct (read_frame_total bs) as [r Er]. rewrite Er. cbn [bind]. destruct r as [f|]; [|apply IH; assumption].
  destruct (cl_handle_frame_total c a f now vnow H (read_frame_u32 bs f Hb1 Er)) as ([c1 a1] & E1 & H1).
  rewrite E1. cbn [bind fst snd]. apply IH; assumption.
Qed.

Lemma cl_handle_events_inv c a now : ClInv c -> ClInv (fst (cl_handle_events c a now)).
Proof.
  unfold ClInv, cl_handle_events. intros H. destruct (cl_state_ c) eqn:E.
  - destruct (_ <=? now); [destruct (0 <? _)|]; cbn [fst cl_set cl_state_]; try rewrite E; auto.
  - destruct (_ <=? now); cbn [fst cl_set cl_state_]; try rewrite E; auto.
  - destruct (_ <=? now); [destruct (0 <? _)|]; cbn [fst cl_set cl_state_]; try rewrite E; auto.
  - destruct (_ <=? now); cbn [fst cl_set cl_state_]; try rewrite E; auto.
  - cbn [fst]. rewrite E. exact I.
Qed.

Lemma cl_step_total c a now vnow : ClInv c -> exists r, cl_step_if_active c a now vnow = Ok r /\ ClInv (fst r).
Proof.
  unfold ClInv, cl_step_if_active. destruct (cl_state_ c) eqn:E; intros H; try (eexists; split; [reflexivity|cbn [fst]; rewrite E; exact H]).
  match goal with |- context [if ?x then _ else _] => destruct x end.
  - destruct (hc_receive h). eexists. split; [reflexivity|]. cbn [fst cl_set cl_state_]. exact I.
  - destruct (hc_step_total h (vnow - t0) H) as (h1 & E1 & H1). rewrite E1. cbn [bind].
    pose proof (hc_receive_inv2 h1 H1) as H2. destruct (hc_receive h1) as [h2 pkts]. cbn [fst] in H2.
    eexists. split; [reflexivity|]. cbn [fst cl_set cl_state_]. exact H2.
Qed.

Theorem client_step_total c vnow inbox :
  ClInv c -> Forall (Forall byte) inbox -> exists c' evs sends, client_step c vnow inbox = Ok (c', evs, sends) /\ ClInv c'.
Proof.
  intros H Hb. unfold client_step.
  destruct (cl_flush_total c (mkClAcc [] []) H) as ([c1 a1] & E1 & H1). rewrite E1. cbn [bind fst snd].
  destruct (cl_handle_frames_total (vnow - cl_t0 c) vnow inbox c1 a1 Hb H1) as ([c2 a2] & E2 & H2). rewrite E2. cbn [bind fst snd].
  pose proof (cl_handle_events_inv c2 a2 (vnow - cl_t0 c) H2) as H3.
  destruct (cl_handle_events c2 a2 (vnow - cl_t0 c)) as [c3 a3]. cbn [fst] in H3.
  destruct (cl_step_total c3 a3 (vnow - cl_t0 c) vnow H3) as ([c4 a4] & E4 & H4). rewrite E4. cbn [bind fst snd].
  eexists _, _, _. split; [reflexivity|exact H4].
Qed.

Theorem client_flush_total c : ClInv c -> exists c' sends, client_flush c = Ok (c', sends) /\ ClInv c'.
Proof.
  intros H. unfold client_flush. destruct (cl_flush_total c (mkClAcc [] []) H) as ([c1 a1] & E1 & H1). rewrite E1. cbn [bind fst snd].
  eexists _, _. split; [reflexivity|exact H1].
Qed.

(* every history of a client *)
Inductive cl_op := ClStep (vnow : N) (inbox : list (list N)) | ClFlush | ClSend (d : list N) (ch : N) (m : send_mode) | ClDisconnect (now : bool).

Definition cl_op_ok (o : cl_op) : Prop := match o with ClStep _ inbox => Forall (Forall byte) inbox | _ => True end.

Definition cl_apply (c : client) (o : cl_op) : client :=
  match o with
  | ClStep vnow inbox => match client_step c vnow inbox with Ok (c', _, _) => c' | _ => c end
  | ClFlush => match client_flush c with Ok (c', _) => c' | _ => c end
  | ClSend d ch m => client_send c d ch m
  | ClDisconnect now => client_disconnect c now
  end.

Definition cl_op_result (c : client) (o : cl_op) : res unit :=
  match o with
  | ClStep vnow inbox => match client_step c vnow inbox with Ok _ => Ok tt | Panic s => Panic s | Hang s => Hang s end
  | ClFlush => match client_flush c with Ok _ => Ok tt | Panic s => Panic s | Hang s => Hang s end
  | _ => Ok tt
  end.

Lemma cl_apply_inv c o : cl_op_ok o -> ClInv c -> ClInv (cl_apply c o).
Proof.
  intros Ho H. destruct o as [vnow inbox| |d ch m|now]; cbn [cl_apply].
  - destruct (client_step_total c vnow inbox H Ho) as (c' & evs & sends & E & H'). rewrite E. exact H'.
  - destruct (client_flush_total c H) as (c' & sends & E & H'). rewrite E. exact H'.
  - apply client_send_inv. exact H.
  - apply client_disconnect_inv. exact H.
Qed.

(* No datagram, clock value or application call makes a client panic or hang. *)
Theorem client_never_panics_or_hangs ec nonce t0 seed ops o :
  nonce < pow32 -> Forall cl_op_ok ops -> cl_op_ok o ->
  cl_op_result (fold_left cl_apply ops (fst (client_connect ec nonce t0 seed))) o = Ok tt.
Proof.
  intros Hn Ho Hop.
  assert (G : forall c, ClInv c -> ClInv (fold_left cl_apply ops c)).
  { induction Ho as [|o1 ops1 H1 H2 IH]; intros c H; cbn [fold_left]; [exact H|]. apply IH. apply cl_apply_inv; assumption. }
  pose proof (G _ (client_connect_inv ec nonce t0 seed Hn)) as H.
  set (c := fold_left cl_apply ops (fst (client_connect ec nonce t0 seed))) in *.
  destruct o as [vnow inbox| |d ch m|now]; cbn [cl_op_result]; try reflexivity.
  - destruct (client_step_total c vnow inbox H Hop) as (c' & evs & sends & E & _). rewrite E. reflexivity.
  - destruct (client_flush_total c H) as (c' & sends & E & _). rewrite E. reflexivity.
Qed.
