(* EndpointTotal.v — Client and Server around the half-connection: no datagram, clock value or application call
   makes an endpoint panic or loop (C03), for every sequence of steps and calls. *)
From Coq Require Import ZArith Lia ZifyBool ZifyN ZifyNat.
From UF Require Import Consts Base Frame Codec F64 Feedback Sender Receiver FrameAck Heap FrameQueue SendRate HalfConn Endpoint
                       BaseLemmas CodecTotal SenderProofs FrameQueueProofs HcTotal HcFlushTotal HcStepTotal.
Local Open Scope N_scope.

(* ---------- frames read from bytes carry u32 fields ---------- *)
Definition byte (b : N) : Prop := b < 256.

Lemma get_in d i b : get d i = Ok b -> In b d.
Proof. unfold get. destruct (nth_error d (N.to_nat i)) eqn:E; [|discriminate]. intros H; inversion H; subst. eapply nth_error_In; eassumption. Qed.

Lemma get32_lt d i x : Forall byte d -> get32 d i = Ok x -> x < pow32.
Proof.
  intros Hb. unfold get32.
  destruct (get d i) as [b0| |] eqn:E0; cbn [bind]; try discriminate.
  destruct (get d (i + 1)) as [b1| |] eqn:E1; cbn [bind]; try discriminate.
  destruct (get d (i + 2)) as [b2| |] eqn:E2; cbn [bind]; try discriminate.
  destruct (get d (i + 3)) as [b3| |] eqn:E3; cbn [bind]; try discriminate.
  intros H; inversion H; subst. rewrite Forall_forall in Hb.
  apply be32_lt; apply Hb; eapply get_in; eassumption.
Qed.

Lemma firstn_In' {A} (l : list A) : forall n x, In x (firstn n l) -> In x l.
Proof. induction l as [|h t IH]; intros [|n] x H; cbn [firstn In] in *; try tauto. destruct H; [auto|right; eauto]. Qed.

Lemma skipn_In' {A} (l : list A) : forall n x, In x (skipn n l) -> In x l.
Proof. induction l as [|h t IH]; intros [|n] x H; cbn [skipn In] in *; try tauto. right; eauto. Qed.

Lemma slice_bytes d a b s : Forall byte d -> slice d a b = Ok s -> Forall byte s.
Proof.
  unfold slice. intros Hb. destruct (_ && _); [|discriminate]. intros H; inversion H; subst.
  rewrite Forall_forall in *. intros x Hx. apply Hb. apply firstn_In' in Hx. eapply skipn_In'; eassumption.
Qed.

Ltac noacks H :=
  repeat match type of H with
  | (if ?c then _ else _) = _ => destruct c
  | bind ?r _ = _ => let E := fresh "E" in destruct r eqn:E; cbn [bind] in H
  | match ?x with _ => _ end = _ => destruct x
  end; try discriminate H; try (inversion H; fail).

Lemma read_ack_payload_u32 d f : Forall byte d -> read_ack_payload d = Ok (Some f) -> frame_u32_ok f.
Proof.
  intros Hb. unfold read_ack_payload. destruct (len d <? _); [discriminate|].
  destruct (get32 d 0) as [fb| |] eqn:E0; cbn [bind]; try discriminate.
  destruct (get32 d 4) as [pb| |]; cbn [bind]; try discriminate.
  destruct (get16 d 8) as [n| |]; cbn [bind]; try discriminate.
  destruct (slice_from d _) as [ds| |]; cbn [bind]; try discriminate.
  destruct (read_frame_acks _ _ _) as [[[acks rest]|]| |]; cbn [bind]; try discriminate.
  destruct (negb _); [discriminate|]. intros H; inversion H; subst. cbn [frame_u32_ok]. eapply get32_lt; eassumption.
Qed.

Lemma read_payload_u32 ty d f : Forall byte d -> read_payload ty d = Ok (Some f) -> frame_u32_ok f.
Proof.
  intros Hb H. unfold read_payload in H.
  destruct (ty =? HANDSHAKE_SYN_FRAME_ID).
  { destruct f; try exact I. exfalso. unfold read_handshake_syn_payload in H. noacks H. }
  destruct (ty =? HANDSHAKE_SYN_ACK_FRAME_ID).
  { destruct f; try exact I. exfalso. unfold read_handshake_syn_ack_payload in H. noacks H. }
  destruct (ty =? HANDSHAKE_ACK_FRAME_ID).
  { destruct f; try exact I. exfalso. unfold read_handshake_ack_payload in H. noacks H. }
  destruct (ty =? HANDSHAKE_ERROR_FRAME_ID).
  { destruct f; try exact I. exfalso. unfold read_handshake_error_payload in H. noacks H. }
  destruct (ty =? DISCONNECT_FRAME_ID).
  { destruct f; try exact I. exfalso. unfold read_disconnect_payload in H. noacks H. }
  destruct (ty =? DISCONNECT_ACK_FRAME_ID).
  { destruct f; try exact I. exfalso. unfold read_disconnect_ack_payload in H. noacks H. }
  destruct (ty =? DATA_FRAME_ID).
  { destruct f; try exact I. exfalso. unfold read_data_payload in H. noacks H. }
  destruct (ty =? SYNC_FRAME_ID).
  { destruct f; try exact I. exfalso. unfold read_sync_payload in H. noacks H. }
  destruct (ty =? ACK_FRAME_ID); [|discriminate]. eapply read_ack_payload_u32; eassumption.
Qed.

Lemma read_frame_u32 bs f : Forall byte bs -> read_frame bs = Ok (Some f) -> frame_u32_ok f.
Proof.
  intros Hb. unfold read_frame. destruct (len bs <? 5); [discriminate|].
  destruct (slice bs 0 _) as [db| |]; cbn [bind]; try discriminate.
  destruct (get32 bs _) as [crc| |]; cbn [bind]; try discriminate.
  destruct (negb _); [discriminate|].
  destruct (slice bs 1 _) as [pl| |] eqn:Es; cbn [bind]; try discriminate.
  destruct (get bs 0) as [ty| |]; cbn [bind]; try discriminate.
  apply read_payload_u32. eapply slice_bytes; eassumption.
Qed.

(* ---------- half-connection facts in the form the endpoints use them ---------- *)
Lemma cfg_of_ok ec ln rn rmrr rmra : ln < pow32 -> cfg_ok (hc_config_of ec ln rn rmrr rmra).
Proof.
  intros H. unfold cfg_ok, hc_config_of. cbn.
  repeat split; try assumption; try (vm_compute; congruence).
  change pow20 with 1048576. apply N.mod_lt. discriminate.
Qed.

Lemma hc_new_inv2 c seed : cfg_ok c -> HcInv2 (hc_new c seed).
Proof. intros H. split; [apply hc_new_inv; exact H|apply hc_new_Q]. Qed.

Lemma hc_send_inv2 h d c m : HcInv2 h -> HcInv2 (hc_send h d c m).
Proof. intros H. exact (hc_apply_inv2 h (OpSend d c m) I H). Qed.

Lemma hc_receive_inv2 h : HcInv2 h -> HcInv2 (fst (hc_receive h)).
Proof. intros H. exact (hc_apply_inv2 h OpReceive I H). Qed.

Lemma hc_flush_total2 h : HcInv2 h -> exists h' out, hc_flush h = Ok (h', out) /\ HcInv2 h'.
Proof.
  intros [H Hq]. destruct (hc_flush_total h H) as [[h' out] E]. exists h', out. split; [exact E|].
  split; [eapply hc_flush_inv; eassumption|eapply hc_flush_Q; eassumption].
Qed.

Lemma hc_handle_frame_total2 h f : HcInv2 h -> frame_u32_ok f -> exists h' k, hc_handle_frame h f = Ok (h', k) /\ HcInv2 h'.
Proof.
  intros [H Hq] Hf. destruct (hc_handle_frame_total h f H Hf) as (h' & k & E & H'). exists h', k. split; [exact E|].
  split; [exact H'|eapply hc_handle_frame_Q; eassumption].
Qed.

(* ---------- the client ---------- *)
Definition ClInv (c : client) : Prop :=
  match cl_state_ c with
  | ClPending ln _ _ _ _ => ln < pow32
  | ClActive _ _ h _ _ _ => HcInv2 h
  | _ => True
  end.

Lemma client_connect_inv ec nonce t0 seed : nonce < pow32 -> ClInv (fst (client_connect ec nonce t0 seed)).
Proof. intros H. exact H. Qed.

Lemma client_send_inv c d ch m : ClInv c -> ClInv (client_send c d ch m).
Proof.
  unfold ClInv, client_send. destruct (cl_state_ c) eqn:E; cbn [cl_set cl_state_]; try rewrite E; auto.
  apply hc_send_inv2.
Qed.

Lemma client_disconnect_inv c now : ClInv c -> ClInv (client_disconnect c now).
Proof. unfold ClInv, client_disconnect. destruct (cl_state_ c) eqn:E; cbn [cl_set cl_state_]; try rewrite E; auto. Qed.

Lemma cl_flush_total c a : ClInv c -> exists r, cl_flush_if_active c a = Ok r /\ ClInv (fst r).
Proof.
  unfold ClInv, cl_flush_if_active. destruct (cl_state_ c) eqn:E; intros H; try (eexists; split; [reflexivity|cbn [fst]; rewrite E; exact H]).
  destruct (hc_flush_total2 h H) as (h' & out & Ef & H'). rewrite Ef. cbn [bind fst snd].
  eexists. split; [reflexivity|]. cbn [fst cl_set cl_state_]. exact H'.
Qed.

Lemma fold_send_inv2 sends : forall h, HcInv2 h ->
  HcInv2 (fold_left (fun hh (e : list N * N * send_mode) => hc_send hh (fst (fst e)) (snd (fst e)) (snd e)) sends h).
Proof. induction sends as [|e t IH]; intros h H; cbn [fold_left]; [exact H|]. apply IH. apply hc_send_inv2. exact H. Qed.

Lemma cl_handle_frame_total c a f now vnow :
  ClInv c -> frame_u32_ok f -> exists r, cl_handle_frame c a f now vnow = Ok r /\ ClInv (fst r).
Proof.
  intros H Hf. unfold ClInv in *.
  destruct f as [v n x y z|na n mrr mps mra|na|na e| | |seq nonce dgs|nf np|fb pb acks]; cbn [cl_handle_frame];
    try (eexists; split; [reflexivity|exact H]).
  - (* SYN+ACK *)
    eexists. split; [reflexivity|]. unfold cl_handle_syn_ack. destruct (cl_state_ c) eqn:E; cbn [fst]; try (rewrite E; exact H).
    + destruct (na =? local_nonce); cbn [fst cl_set cl_state_]; [|rewrite E; exact H].
      apply fold_send_inv2. apply hc_new_inv2. apply cfg_of_ok. exact H.
    + destruct (_ && _); cbn [fst cl_set cl_state_]; [exact H|rewrite E; exact H].
  - eexists. split; [reflexivity|]. unfold cl_handle_error. destruct (cl_state_ c) eqn:E; cbn [fst]; try (rewrite E; exact H).
    destruct (na =? local_nonce); cbn [fst cl_set cl_state_]; [exact I|rewrite E; exact H].
  - eexists. split; [reflexivity|]. unfold cl_handle_disconnect. destruct (cl_state_ c) eqn:E; cbn [fst]; try (rewrite E; exact H).
    + destruct (hc_receive h). cbn [fst cl_set cl_state_]. exact I.
    + cbn [cl_set cl_state_]. exact I.
  - destruct (cl_state_ c) eqn:E; eexists; (split; [reflexivity|]); cbn [fst cl_set cl_state_]; try rewrite E; try exact H; exact I.
  - destruct (cl_state_ c) eqn:E; try (eexists; split; [reflexivity|cbn [fst]; rewrite E; exact H]).
    destruct (hc_handle_frame_total2 h _ H Hf) as (h' & k & Eh & H'). rewrite Eh. cbn [bind fst].
    eexists. split; [reflexivity|]. cbn [fst cl_set cl_state_]. exact H'.
  - destruct (cl_state_ c) eqn:E; try (eexists; split; [reflexivity|cbn [fst]; rewrite E; exact H]).
    destruct (hc_handle_frame_total2 h _ H Hf) as (h' & k & Eh & H'). rewrite Eh. cbn [bind fst].
    eexists. split; [reflexivity|]. cbn [fst cl_set cl_state_]. exact H'.
  - destruct (cl_state_ c) eqn:E; try (eexists; split; [reflexivity|cbn [fst]; rewrite E; exact H]).
    destruct (hc_handle_frame_total2 h _ H Hf) as (h' & k & Eh & H'). rewrite Eh. cbn [bind fst].
    eexists. split; [reflexivity|]. cbn [fst cl_set cl_state_]. exact H'.
Qed.

Lemma cl_handle_frames_total now vnow : forall inbox c a,
  Forall (Forall byte) inbox -> ClInv c -> exists r, cl_handle_frames inbox c a now vnow = Ok r /\ ClInv (fst r).
Proof.
  induction inbox as [|bs rest IH]; intros c a Hb H; cbn [cl_handle_frames]; [eexists; split; [reflexivity|exact H]|].
  inversion Hb as [|? ? Hb1 Hb2]; subst.
  destruct (read_frame_total bs) as [r Er]. rewrite Er. cbn [bind]. destruct r as [f|]; [|apply IH; assumption].
  destruct (cl_handle_frame_total c a f now vnow H (read_frame_u32 bs f Hb1 Er)) as ([c1 a1] & E1 & H1).
  rewrite E1. cbn [bind fst snd]. apply IH; assumption.
Qed.

Lemma cl_handle_events_inv c a now : ClInv c -> ClInv (fst (cl_handle_events c a now)).
Proof.
  unfold ClInv, cl_handle_events. intros H. destruct (cl_state_ c) eqn:E.
  - destruct (_ <=? now); [destruct (0 <? _)|]; cbn [fst cl_set cl_state_]; try rewrite E; auto.
  - destruct (_ <=? now); cbn [fst cl_set cl_state_]; try rewrite E; auto.
  - destruct (_ <=? now); [destruct (0 <? _)|]; cbn [fst cl_set cl_state_]; try rewrite E; auto.
  - destruct (_ <=? now); cbn [fst cl_set cl_state_]; try rewrite E; auto.
  - cbn [fst]. rewrite E. exact I.
Qed.

Lemma cl_step_total c a now vnow : ClInv c -> exists r, cl_step_if_active c a now vnow = Ok r /\ ClInv (fst r).
Proof.
  unfold ClInv, cl_step_if_active. destruct (cl_state_ c) eqn:E; intros H; try (eexists; split; [reflexivity|cbn [fst]; rewrite E; exact H]).
  match goal with |- context [if ?x then _ else _] => destruct x end.
  - destruct (hc_receive h). eexists. split; [reflexivity|]. cbn [fst cl_set cl_state_]. exact I.
  - destruct (hc_step_total h (vnow - t0) H) as (h1 & E1 & H1). rewrite E1. cbn [bind].
    pose proof (hc_receive_inv2 h1 H1) as H2. destruct (hc_receive h1) as [h2 pkts]. cbn [fst] in H2.
    eexists. split; [reflexivity|]. cbn [fst cl_set cl_state_]. exact H2.
Qed.

Theorem client_step_total c vnow inbox :
  ClInv c -> Forall (Forall byte) inbox -> exists c' evs sends, client_step c vnow inbox = Ok (c', evs, sends) /\ ClInv c'.
Proof.
  intros H Hb. unfold client_step.
  destruct (cl_flush_total c (mkClAcc [] []) H) as ([c1 a1] & E1 & H1). rewrite E1. cbn [bind fst snd].
  destruct (cl_handle_frames_total (vnow - cl_t0 c) vnow inbox c1 a1 Hb H1) as ([c2 a2] & E2 & H2). rewrite E2. cbn [bind fst snd].
  pose proof (cl_handle_events_inv c2 a2 (vnow - cl_t0 c) H2) as H3.
  destruct (cl_handle_events c2 a2 (vnow - cl_t0 c)) as [c3 a3]. cbn [fst] in H3.
  destruct (cl_step_total c3 a3 (vnow - cl_t0 c) vnow H3) as ([c4 a4] & E4 & H4). rewrite E4. cbn [bind fst snd].
  eexists _, _, _. split; [reflexivity|exact H4].
Qed.

Theorem client_flush_total c : ClInv c -> exists c' sends, client_flush c = Ok (c', sends) /\ ClInv c'.
Proof.
  intros H. unfold client_flush. destruct (cl_flush_total c (mkClAcc [] []) H) as ([c1 a1] & E1 & H1). rewrite E1. cbn [bind fst snd].
  eexists _, _. split; [reflexivity|exact H1].
Qed.

(* every history of a client *)
Inductive cl_op := ClStep (vnow : N) (inbox : list (list N)) | ClFlush | ClSend (d : list N) (ch : N) (m : send_mode) | ClDisconnect (now : bool).

Definition cl_op_ok (o : cl_op) : Prop := match o with ClStep _ inbox => Forall (Forall byte) inbox | _ => True end.

Definition cl_apply (c : client) (o : cl_op) : client :=
  match o with
  | ClStep vnow inbox => match client_step c vnow inbox with Ok (c', _, _) => c' | _ => c end
  | ClFlush => match client_flush c with Ok (c', _) => c' | _ => c end
  | ClSend d ch m => client_send c d ch m
  | ClDisconnect now => client_disconnect c now
  end.

Definition cl_op_result (c : client) (o : cl_op) : res unit :=
  match o with
  | ClStep vnow inbox => match client_step c vnow inbox with Ok _ => Ok tt | Panic s => Panic s | Hang s => Hang s end
  | ClFlush => match client_flush c with Ok _ => Ok tt | Panic s => Panic s | Hang s => Hang s end
  | _ => Ok tt
  end.

Lemma cl_apply_inv c o : cl_op_ok o -> ClInv c -> ClInv (cl_apply c o).
Proof.
  intros Ho H. destruct o as [vnow inbox| |d ch m|now]; cbn [cl_apply].
  - destruct (client_step_total c vnow inbox H Ho) as (c' & evs & sends & E & H'). rewrite E. exact H'.
  - destruct (client_flush_total c H) as (c' & sends & E & H'). rewrite E. exact H'.
  - apply client_send_inv. exact H.
  - apply client_disconnect_inv. exact H.
Qed.

(* No datagram, clock value or application call makes a client panic or hang. *)
Theorem client_never_panics_or_hangs ec nonce t0 seed ops o :
  nonce < pow32 -> Forall cl_op_ok ops -> cl_op_ok o ->
  cl_op_result (fold_left cl_apply ops (fst (client_connect ec nonce t0 seed))) o = Ok tt.
Proof.
  intros Hn Ho Hop.
  assert (G : forall c, ClInv c -> ClInv (fold_left cl_apply ops c)).
  { induction Ho as [|o1 ops1 H1 H2 IH]; intros c H; cbn [fold_left]; [exact H|]. apply IH. apply cl_apply_inv; assumption. }
  pose proof (G _ (client_connect_inv ec nonce t0 seed Hn)) as H.
  set (c := fold_left cl_apply ops (fst (client_connect ec nonce t0 seed))) in *.
  destruct o as [vnow inbox| |d ch m|now]; cbn [cl_op_result]; try reflexivity.
  - destruct (client_step_total c vnow inbox H Hop) as (c' & evs & sends & E & _). rewrite E. reflexivity.
  - destruct (client_flush_total c H) as (c' & sends & E & _). rewrite E. reflexivity.
Qed.

(* ====================================================================== the server *)
From UF Require Import HeapCount.

Definition ObjOk (st : sv_cstate) : Prop :=
  match st with
  | SvActive h _ _ _ => HcInv2 h
  | SvPending ln _ _ _ _ => ln < pow32
  | _ => True
  end.

Definition SvInv (s : server) : Prop := Forall (fun o => ObjOk (so_state o)) (sv_objs s).

Lemma sv_obj_ok s id : SvInv s -> ObjOk (so_state (sv_obj_get s id)).
Proof.
  intros H. unfold sv_obj_get. destruct (nth_in_or_default (N.to_nat id) (sv_objs s) (mkSvObj 0 SvFin)) as [Hin | ->]; [|exact I].
  unfold SvInv in H. rewrite Forall_forall in H. apply H. exact Hin.
Qed.

Lemma Forall_upd {A} (Pp : A -> Prop) : forall l i x, Forall Pp l -> Pp x -> Forall Pp (upd l i x).
Proof.
  induction l as [|h t IH]; intros [|i] x Hl Hx; cbn [upd]; try exact Hl; inversion Hl; subst; constructor; auto.
Qed.

Lemma sv_set_obj_inv s id st : SvInv s -> ObjOk st -> SvInv (sv_set_obj s id st).
Proof. intros H Hs. unfold SvInv, sv_set_obj. cbn [sv_objs]. apply Forall_upd; [exact H|exact Hs]. Qed.

Lemma SvInv_ext s s' : sv_objs s' = sv_objs s -> SvInv s -> SvInv s'.
Proof. unfold SvInv. intros ->. auto. Qed.

Definition nonces_ok (a : sv_acc) : Prop := Forall (fun n => n < pow32) (ac_nonces a).

(* ----- frames ----- *)
Lemma sv_handle_syn_inv s a addr v n mrr mps mra now :
  SvInv s -> nonces_ok a -> SvInv (fst (sv_handle_syn s a addr v n mrr mps mra now)) /\ nonces_ok (snd (sv_handle_syn s a addr v n mrr mps mra now)).
Proof.
  intros H Hn. unfold sv_handle_syn.
  destruct (sv_lookup s addr); [split; assumption|].
  assert (R : forall e k, SvInv (fst (sv_refuse s a addr n e k)) /\ nonces_ok (snd (sv_refuse s a addr n e k))).
  { intros e k. unfold sv_refuse. cbn [fst snd]. split; [exact H|]. destruct (svc_enable_errors _); exact Hn. }
  destruct (negb _); [apply R|]. destruct (_ || _); [apply R|]. destruct (mra <? _); [apply R|]. destruct (_ <? mps); [apply R|].
  cbn [fst snd]. split.
  - unfold SvInv, sv_push_event. cbn [sv_objs]. apply Forall_app. split; [exact H|]. constructor; [|constructor].
    cbn [so_state ObjOk]. unfold nonces_ok in Hn. destruct (ac_nonces a) as [|x t]; cbn [hd]; [unfold_pows; lia|]. inversion Hn; assumption.
  - unfold nonces_ok in *. cbn [acc_send ac_nonces]. destruct (ac_nonces a) as [|x t]; cbn [tl]; [constructor|]. inversion Hn; assumption.
Qed.

Lemma sv_handle_ack_inv s a addr na now vnow :
  SvInv s -> SvInv (fst (sv_handle_ack s a addr na now vnow)) /\ ac_nonces (snd (sv_handle_ack s a addr na now vnow)) = ac_nonces a.
Proof.
  intros H. unfold sv_handle_ack. destruct (sv_lookup s addr) as [id|]; [|split; [exact H|reflexivity]].
  pose proof (sv_obj_ok s id H) as Ho. destruct (so_state (sv_obj_get s id)) eqn:E; cbn [ObjOk] in Ho; try (split; [exact H|reflexivity]).
  - destruct (_ && _); [|split; [exact H|reflexivity]]. cbn [fst snd acc_event ac_nonces]. split; [|reflexivity].
    unfold SvInv. cbn [sv_objs sv_set_obj]. apply Forall_upd; [exact H|]. cbn [so_state ObjOk].
    apply hc_new_inv2. apply cfg_of_ok. exact Ho.
  - cbn [fst snd]. split; [|reflexivity]. apply sv_set_obj_inv; [exact H|exact Ho].
Qed.

Lemma sv_handle_disconnect_inv s a addr now :
  SvInv s -> SvInv (fst (sv_handle_disconnect s a addr now)) /\ ac_nonces (snd (sv_handle_disconnect s a addr now)) = ac_nonces a.
Proof.
  intros H. unfold sv_handle_disconnect. destruct (sv_lookup s addr) as [id|]; [|split; [exact H|reflexivity]].
  destruct (so_state (sv_obj_get s id)) eqn:E; try (split; [exact H|reflexivity]).
  - destruct (hc_receive h). cbn [fst snd]. split; [|reflexivity].
    eapply SvInv_ext; [|apply (sv_set_obj_inv s id SvClosed H I)]. reflexivity.
  - cbn [fst snd]. split; [|reflexivity]. eapply SvInv_ext; [|apply (sv_set_obj_inv s id SvClosed H I)]. reflexivity.
Qed.

Lemma sv_handle_disconnect_ack_inv s a addr :
  SvInv s -> SvInv (fst (sv_handle_disconnect_ack s a addr)) /\ ac_nonces (snd (sv_handle_disconnect_ack s a addr)) = ac_nonces a.
Proof.
  intros H. unfold sv_handle_disconnect_ack. destruct (sv_lookup s addr) as [id|]; [|split; [exact H|reflexivity]].
  destruct (so_state (sv_obj_get s id)) eqn:E; try (split; [exact H|reflexivity]).
  cbn [fst snd]. split; [|reflexivity]. eapply SvInv_ext; [|apply (sv_set_obj_inv s id SvFin H I)]. reflexivity.
Qed.

Lemma sv_handle_hc_frame_total s a addr f now :
  SvInv s -> frame_u32_ok f ->
  exists r, sv_handle_hc_frame s a addr f now = Ok r /\ SvInv (fst r) /\ ac_nonces (snd r) = ac_nonces a.
Proof.
  intros H Hf. unfold sv_handle_hc_frame. destruct (sv_lookup s addr) as [id|]; [|eexists; split; [reflexivity|split; [exact H|reflexivity]]].
  pose proof (sv_obj_ok s id H) as Ho.
  destruct (so_state (sv_obj_get s id)) eqn:E; cbn [ObjOk] in Ho; try (eexists; split; [reflexivity|split; [exact H|reflexivity]]).
  destruct (hc_handle_frame_total2 h f Ho Hf) as (h' & k & Eh & H'). rewrite Eh. cbn [bind fst].
  eexists. split; [reflexivity|]. cbn [fst snd]. split; [|reflexivity]. apply sv_set_obj_inv; [exact H|exact H'].
Qed.

Lemma sv_handle_frame_total s a addr f now vnow :
  SvInv s -> nonces_ok a -> frame_u32_ok f ->
  exists r, sv_handle_frame s a addr f now vnow = Ok r /\ SvInv (fst r) /\ nonces_ok (snd r).
Proof.
  intros H Hn Hf.
  destruct f as [v n x y z|na n mrr mps mra|na|na e| | |seq nonce dgs|nf np|fb pb acks]; cbn [sv_handle_frame];
    try (eexists; split; [reflexivity|split; assumption]).
  - eexists. split; [reflexivity|]. apply sv_handle_syn_inv; assumption.
  - eexists. split; [reflexivity|]. destruct (sv_handle_ack_inv s a addr na now vnow H) as [A B]. split; [exact A|]. unfold nonces_ok. rewrite B. exact Hn.
  - eexists. split; [reflexivity|]. destruct (sv_handle_disconnect_inv s a addr now H) as [A B]. split; [exact A|]. unfold nonces_ok. rewrite B. exact Hn.
  - eexists. split; [reflexivity|]. destruct (sv_handle_disconnect_ack_inv s a addr H) as [A B]. split; [exact A|]. unfold nonces_ok. rewrite B. exact Hn.
  - destruct (sv_handle_hc_frame_total s a addr _ now H Hf) as (r & E & A & B). exists r. split; [exact E|]. split; [exact A|]. unfold nonces_ok. rewrite B. exact Hn.
  - destruct (sv_handle_hc_frame_total s a addr _ now H Hf) as (r & E & A & B). exists r. split; [exact E|]. split; [exact A|]. unfold nonces_ok. rewrite B. exact Hn.
  - destruct (sv_handle_hc_frame_total s a addr _ now H Hf) as (r & E & A & B). exists r. split; [exact E|]. split; [exact A|]. unfold nonces_ok. rewrite B. exact Hn.
Qed.

Lemma sv_handle_frames_total now vnow : forall inbox s a,
  Forall (fun p => Forall byte (snd p)) inbox -> SvInv s -> nonces_ok a ->
  exists r, sv_handle_frames inbox s a now vnow = Ok r /\ SvInv (fst r).
Proof.
  induction inbox as [|[addr bs] rest IH]; intros s a Hb H Hn; cbn [sv_handle_frames]; [eexists; split; [reflexivity|exact H]|].
  inversion Hb as [|? ? Hb1 Hb2]; subst. cbn [snd] in Hb1.
  destruct (read_frame_total bs) as [r Er]. rewrite Er. cbn [bind]. destruct r as [f|]; [|apply IH; assumption].
  destruct (sv_handle_frame_total s a addr f now vnow H Hn (read_frame_u32 bs f Hb1 Er)) as ([s1 a1] & E1 & H1 & Hn1).
  rewrite E1. cbn [bind fst snd]. apply IH; assumption.
Qed.

(* ----- timers ----- *)
Definition due (now : N) (e : rq_entry) : bool := rq_time e <=? now.

Lemma sv_handle_event_inv s a ev now :
  SvInv s ->
  SvInv (fst (sv_handle_event s a ev now)) /\
  cnt (due now) (sv_events (fst (sv_handle_event s a ev now))) = cnt (due now) (sv_events s).
Proof.
  intros H. unfold sv_handle_event.
  assert (Push : forall s0 k c C, 0 < C -> cnt (due now) (sv_events (sv_push_event s0 (mkRq (rq_uid ev) k (now + C) c))) = cnt (due now) (sv_events s0)).
  { intros s0 k c C HC. unfold sv_push_event. cbn [sv_events]. rewrite heap_push_cnt. unfold due. cbn [rq_time].
    destruct (N.leb_spec (now + C) now); [lia|]. cbn. lia. }
  destruct (so_state (sv_obj_get s (rq_uid ev))) eqn:E; try (split; [exact H|reflexivity]).
  - destruct (rq_frag ev =? 0); [|split; [exact H|reflexivity]]. destruct (0 <? rq_count ev); cbn [fst].
    + split; [exact H|]. apply Push. reflexivity.
    + split; [|reflexivity]. eapply SvInv_ext; [|apply (sv_set_obj_inv s (rq_uid ev) SvFin H I)]. reflexivity.
  - destruct (rq_frag ev =? 1); [|split; [exact H|reflexivity]]. destruct (0 <? rq_count ev); cbn [fst].
    + split; [exact H|]. apply Push. reflexivity.
    + split; [|reflexivity]. eapply SvInv_ext; [|apply (sv_set_obj_inv s (rq_uid ev) SvFin H I)]. reflexivity.
  - destruct (rq_frag ev =? 2); cbn [fst]; [|split; [exact H|reflexivity]].
    split; [|reflexivity]. eapply SvInv_ext; [|apply (sv_set_obj_inv s (rq_uid ev) SvFin H I)]. reflexivity.
Qed.

Lemma sv_pop_events_total now : forall fuel s a,
  SvInv s -> (cnt (due now) (sv_events s) < fuel)%nat -> exists r, sv_pop_events fuel s a now = Ok r /\ SvInv (fst r).
Proof.
  induction fuel as [|fuel IH]; intros s a H Hf; [lia|]. cbn [sv_pop_events].
  destruct (heap_peek (sv_events s)) as [ev|] eqn:Epk; [|eexists; split; [reflexivity|exact H]].
  destruct (N.ltb_spec now (rq_time ev)) as [Hnd|Hd]; [eexists; split; [reflexivity|exact H]|].
  destruct (heap_pop_some _ (heap_peek_nonempty _ _ Epk)) as (x & rest & Epop & _). rewrite Epop.
  destruct (heap_pop_cnt (due now) _ _ _ Epop) as [Hc Hpk]. rewrite Epk in Hpk. inversion Hpk; subst x.
  set (s1 := mkServer (sv_cfg s) (sv_objs s) (sv_clients s) (sv_active s) rest (sv_t0 s) (sv_seed s)).
  assert (H1 : SvInv s1) by (eapply SvInv_ext; [|exact H]; reflexivity).
  destruct (sv_handle_event_inv s1 a ev now H1) as [H2 C2].
  destruct (sv_handle_event s1 a ev now) as [s2 a2]. cbn [fst] in H2, C2.
  apply IH; [exact H2|]. rewrite C2. subst s1. cbn [sv_events].
  assert (due now ev = true) by (unfold due; destruct (N.leb_spec (rq_time ev) now); [reflexivity|lia]).
  rewrite H0 in Hc. cbn [b2] in Hc. lia.
Qed.

Lemma sv_active_timeouts_inv now : forall ids s a, SvInv s -> SvInv (fst (sv_active_timeouts ids s a now)).
Proof.
  induction ids as [|id rest IH]; intros s a H; cbn [sv_active_timeouts]; [exact H|].
  destruct (so_state (sv_obj_get s id)) eqn:E; try (apply IH; exact H).
  destruct (timeout_time <=? now); [|apply IH; exact H].
  destruct (hc_receive h). apply IH. eapply SvInv_ext; [|apply (sv_set_obj_inv s id SvFin H I)]. reflexivity.
Qed.

(* ----- active connections ----- *)
Lemma sv_flush_active_total : forall ids s a, SvInv s -> exists r, sv_flush_active ids s a = Ok r /\ SvInv (fst r) /\ ac_nonces (snd r) = ac_nonces a.
Proof.
  induction ids as [|id rest IH]; intros s a H; cbn [sv_flush_active]; [eexists; split; [reflexivity|split; [exact H|reflexivity]]|].
  pose proof (sv_obj_ok s id H) as Ho.
  destruct (so_state (sv_obj_get s id)) eqn:E; cbn [ObjOk] in Ho; try (apply IH; exact H).
  destruct (hc_flush_total2 h Ho) as (h' & out & Ef & H'). rewrite Ef. cbn [bind fst snd].
  match goal with |- context [sv_flush_active rest ?s1 ?a1] => destruct (IH s1 a1) as (r & Er & Hr & Nr) end.
  { apply sv_set_obj_inv; [exact H|exact H']. }
  exists r. split; [exact Er|]. split; [exact Hr|]. rewrite Nr.
  clear. generalize a. induction out as [|fr t IHo]; intros a0; cbn [fold_left]; [reflexivity|]. rewrite IHo. reflexivity.
Qed.

Lemma sv_step_active_total now vnow : forall ids s a, SvInv s -> exists r, sv_step_active ids s a now vnow = Ok r /\ SvInv (fst r).
Proof.
  induction ids as [|id rest IH]; intros s a H; cbn [sv_step_active]; [eexists; split; [reflexivity|exact H]|].
  pose proof (sv_obj_ok s id H) as Ho.
  destruct (so_state (sv_obj_get s id)) eqn:E; cbn [ObjOk] in Ho; try (apply IH; exact H).
  match goal with |- context [if ?x then _ else _] => destruct x end.
  - destruct (hc_receive h). apply IH. eapply SvInv_ext; [|apply (sv_set_obj_inv s id SvClosing H I)]. reflexivity.
  - destruct (hc_step_total h (vnow - t0) Ho) as (h1 & E1 & H1). rewrite E1. cbn [bind].
    pose proof (hc_receive_inv2 h1 H1) as H2. destruct (hc_receive h1) as [h2 pkts]. cbn [fst] in H2.
    apply IH. apply sv_set_obj_inv; [exact H|exact H2].
Qed.

(* ----- Server::step and the application calls ----- *)
Theorem server_step_total s vnow inbox nonces :
  SvInv s -> Forall (fun p => Forall byte (snd p)) inbox -> Forall (fun n => n < pow32) nonces ->
  exists s' evs sends rest, server_step s vnow inbox nonces = Ok (s', evs, sends, rest) /\ SvInv s'.
Proof.
  intros H Hb Hn. unfold server_step.
  destruct (sv_flush_active_total (sv_active s) s (mkAcc [] [] nonces) H) as ([s1 a1] & E1 & H1 & N1). rewrite E1. cbn [bind fst snd] in *.
  destruct (sv_handle_frames_total (vnow - sv_t0 s) vnow inbox s1 a1 Hb H1 ltac:(unfold nonces_ok; rewrite N1; exact Hn)) as ([s2 a2] & E2 & H2).
  rewrite E2. cbn [bind fst snd] in *.
  destruct (sv_pop_events_total (vnow - sv_t0 s) (S (S (length (sv_events s2) + length inbox) * 16)) s2 a2 H2) as ([s3 a3] & E3 & H3).
  { pose proof (cnt_le (due (vnow - sv_t0 s)) (sv_events s2)). lia. }
  rewrite E3. cbn [bind fst snd] in *.
  pose proof (sv_active_timeouts_inv (vnow - sv_t0 s) (sv_active s3) s3 a3 H3) as H4.
  destruct (sv_active_timeouts (sv_active s3) s3 a3 (vnow - sv_t0 s)) as [s4 a4]. cbn [fst] in H4.
  match goal with |- context [sv_step_active (sv_active ?s5) ?s5 a4 ?n ?v] =>
    destruct (sv_step_active_total n v (sv_active s5) s5 a4) as ([s6 a6] & E6 & H6) end.
  { eapply SvInv_ext; [|exact H4]. reflexivity. }
  rewrite E6. cbn [bind fst snd]. eexists _, _, _, _. split; [reflexivity|exact H6].
Qed.

Theorem server_flush_total s : SvInv s -> exists s' sends, server_flush s = Ok (s', sends) /\ SvInv s'.
Proof.
  intros H. unfold server_flush. destruct (sv_flush_active_total (sv_active s) s (mkAcc [] [] []) H) as ([s1 a1] & E1 & H1 & _).
  rewrite E1. cbn [bind fst snd]. eexists _, _. split; [reflexivity|exact H1].
Qed.

Lemma server_drop_inv s addr : SvInv s -> SvInv (server_drop s addr).
Proof.
  intros H. unfold server_drop. destruct (sv_lookup s addr) as [id|]; [|exact H].
  eapply SvInv_ext; [|apply (sv_set_obj_inv s id SvFin H I)]. reflexivity.
Qed.

Lemma server_client_send_inv s addr d ch m : SvInv s -> SvInv (server_client_send s addr d ch m).
Proof.
  intros H. unfold server_client_send. destruct (sv_lookup s addr) as [id|]; [|exact H].
  pose proof (sv_obj_ok s id H) as Ho. destruct (so_state (sv_obj_get s id)) eqn:E; cbn [ObjOk] in Ho; try exact H.
  apply sv_set_obj_inv; [exact H|]. cbn [ObjOk]. apply hc_send_inv2. exact Ho.
Qed.

Lemma server_client_disconnect_inv s addr now : SvInv s -> SvInv (server_client_disconnect s addr now).
Proof.
  intros H. unfold server_client_disconnect. destruct (sv_lookup s addr) as [id|]; [|exact H].
  pose proof (sv_obj_ok s id H) as Ho. destruct (so_state (sv_obj_get s id)) eqn:E; cbn [ObjOk] in Ho; try exact H.
  apply sv_set_obj_inv; [exact H|exact Ho].
Qed.

Inductive sv_op :=
| SvStep (vnow : N) (inbox : list (N * list N)) (nonces : list N)
| SvFlush
| SvDrop (addr : N)
| SvSend (addr : N) (d : list N) (ch : N) (m : send_mode)
| SvDisconnect (addr : N) (now : bool).

Definition sv_op_ok (o : sv_op) : Prop :=
  match o with
  | SvStep _ inbox nonces => Forall (fun p => Forall byte (snd p)) inbox /\ Forall (fun n => n < pow32) nonces
  | _ => True
  end.

Definition sv_apply (s : server) (o : sv_op) : server :=
  match o with
  | SvStep vnow inbox nonces => match server_step s vnow inbox nonces with Ok (s', _, _, _) => s' | _ => s end
  | SvFlush => match server_flush s with Ok (s', _) => s' | _ => s end
  | SvDrop addr => server_drop s addr
  | SvSend addr d ch m => server_client_send s addr d ch m
  | SvDisconnect addr now => server_client_disconnect s addr now
  end.

Definition sv_op_result (s : server) (o : sv_op) : res unit :=
  match o with
  | SvStep vnow inbox nonces => match server_step s vnow inbox nonces with Ok _ => Ok tt | Panic x => Panic x | Hang x => Hang x end
  | SvFlush => match server_flush s with Ok _ => Ok tt | Panic x => Panic x | Hang x => Hang x end
  | _ => Ok tt
  end.

Lemma sv_apply_inv s o : sv_op_ok o -> SvInv s -> SvInv (sv_apply s o).
Proof.
  intros Ho H. destruct o as [vnow inbox nonces| |addr|addr d ch m|addr now]; cbn [sv_apply].
  - destruct Ho as [Hb Hn]. destruct (server_step_total s vnow inbox nonces H Hb Hn) as (s' & evs & sends & rest & E & H'). rewrite E. exact H'.
  - destruct (server_flush_total s H) as (s' & sends & E & H'). rewrite E. exact H'.
  - apply server_drop_inv. exact H.
  - apply server_client_send_inv. exact H.
  - apply server_client_disconnect_inv. exact H.
Qed.

(* No datagram from any address, clock value, nonce or application call makes a server panic or hang. *)
Theorem server_never_panics_or_hangs cfg t0 seed ops o :
  Forall sv_op_ok ops -> sv_op_ok o ->
  sv_op_result (fold_left sv_apply ops (server_new cfg t0 seed)) o = Ok tt.
Proof.
  intros Ho Hop.
  assert (G : forall s, SvInv s -> SvInv (fold_left sv_apply ops s)).
  { induction Ho as [|o1 ops1 H1 H2 IH]; intros s H; cbn [fold_left]; [exact H|]. apply IH. apply sv_apply_inv; assumption. }
  pose proof (G (server_new cfg t0 seed) ltac:(constructor)) as H.
  set (s := fold_left sv_apply ops (server_new cfg t0 seed)) in *.
  destruct o as [vnow inbox nonces| |addr|addr d ch m|addr now]; cbn [sv_op_result]; try reflexivity.
  - destruct Hop as [Hb Hn]. destruct (server_step_total s vnow inbox nonces H Hb Hn) as (s' & evs & sends & rest & E & _). rewrite E. reflexivity.
  - destruct (server_flush_total s H) as (s' & sends & E & _). rewrite E. reflexivity.
Qed.
