"""C20 — send_buffer_size() is exact and returns to zero."""
from props import _hc
from hc_oracles import quiescent_buffer_oracle, send_buffer_oracle, completion_oracle

PROP = "C20"
COQ_FILE = "props/C20.v"
THEOREMS = ["C20_exact", "C20_zero", "C20_acknowledge_total", "C20_drop_stale_exact", "C20_hc_reports_counter", "C20_half_connection_exact"]
USES_FLOATS = True
NEEDS_RELEASE = True
ASSUMPTIONS = [
    "theorems are about model/Sender.v (PacketSender as a queue of window entries); HalfConnection::send_buffer_size() is the model's s_total by definition",
    "the tie is the pair/tx/hostile correspondence streams: send_buffer_size() and the sender's counters are compared after every operation, debug and release builds",
]
THEOREM_STATEMENTS = ["C20_exact: forall w b m ops, w <= 4096 -> b < 2^20 -> let s := fold_left sender_step ops (sender_new w b m) in s_total s = queued_bytes s + window_bytes s"]


def streams(seed, tier):
    return _hc.build_streams(["pair", "tx", "hostile", "ideal", "live"], seed, tier, 0.6)


def oracle(name, ops, out):
    return _hc.run_oracles({"*": [send_buffer_oracle], "ideal": [quiescent_buffer_oracle], "live": [quiescent_buffer_oracle]}, name, ops, out)
