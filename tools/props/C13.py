"""C13 — wire rate never exceeds the negotiated ceiling."""
from props import _hc
from hc_oracles import wire_rate_oracle, crash_oracle, frame_size_oracle, rate_oracle

PROP = "C13"
COQ_FILE = "props/C13.v"
THEOREMS = ['C13_rate_le_ceiling', 'C13_data_frame_needs_credit', 'C13_ack_frame_needs_credit', 'C13_sync_frame_needs_credit', 'C13_credit_capped_by_rate_times_rtt', 'C13_credit_gain_is_refill', 'C13_refill_schedule_independent', 'C13_frame_length', 'C13_flush_charges_every_byte', 'C13_flush_within_credit', 'C13_credit_ledger', 'C13_step_gain', 'C13_flush_leaves_credit', 'C13_hc_rate_le_ceiling']
USES_FLOATS = True
NEEDS_RELEASE = True
ASSUMPTIONS = ['proved: X <= ceiling (all reachable controller states), frames only start with credit >= 0, credit capped at round(X*rtt) by step() and increased by floor(X*t_now) - floor(X*t_prev), a sum that does not depend on the step schedule (C13_refill_schedule_independent), and for a whole HalfConnection flush (all loops, ack+data+sync): new credit = old credit - bytes emitted exactly, nothing emitted on negative credit, all frames but the last fit in the credit (C13_flush_charges_every_byte, C13_flush_within_credit); over whole histories of sends / receives / steps / flushes / incoming frames bytes emitted = initial credit + gains of the steps - current credit, a step gaining at most floor(X*t_now) - floor(X*t_prev) and nothing on the first step, no other operation touching the credit (CreditLedger.v: C13_credit_ledger, C13_step_gain, C13_flush_leaves_credit); the real-number interval bound is checked by the oracle with the virtual clock, not derived through the float arithmetic (partial)', 'the ratepair and cadence streams never override the flush credit: all credit comes from step(); the cadence stream steps every 1-7 ms under a low ceiling (where per-step rounding of the refill shows, defect D20)']
THEOREM_STATEMENTS = []


def ceiling_oracle(ops, out):
    """the controller-level half of C13 (theorem C13_rate_le_ceiling) on the implementation: the allowed rate the
    rate stream reports never exceeds the configured ceiling"""
    f = rate_oracle(ops, out)
    return f if f and "exceeds the ceiling" in f else None


def streams(seed, tier):
    return _hc.build_streams(["ratepair", "ackflood"], seed, tier, 2.0) + _hc.build_streams(["cadence"], seed, tier, 1.0) + _hc.build_streams(["rate"], seed, tier, 1.0)


def oracle(name, ops, out):
    if _hc.stream_of(name) == "rate":
        return ceiling_oracle(ops, out)
    return _hc.run_oracles({"*": [crash_oracle, frame_size_oracle], "ratepair": [wire_rate_oracle], "ackflood": [wire_rate_oracle], "cadence": [wire_rate_oracle]}, name, ops, out)
