"""C07 — connections exist only after a nonce-validated 3-way handshake."""
import hc_streams
from props import _hc
from hc_oracles import handshake_oracle, grammar_oracle, ep_crash_oracle, entry_stability_oracle, single_ack_nonce_oracle, synack_constant_oracle

PROP = "C07"
COQ_FILE = "props/C07.v"
THEOREMS = ['C07_server_connect_sound', 'C07_server_forged_ack_identity', 'C07_server_repeated_syn_identity', 'C07_version_refused', 'C07_config_refused', 'C07_refusal_reply', 'C07_client_connect_sound', 'C07_client_forged_syn_ack_identity', 'C07_client_duplicate_syn_ack_no_event', 'C07_client_error_sound', 'C07_agreement', 'C07_client_connect_history', 'C07_server_connect_history']
USES_FLOATS = True
NEEDS_RELEASE = False
ASSUMPTIONS = ["proved per handler for ALL states and frames: Connect soundness on both sides, forged/stale/duplicated handshake frames are the identity, refusals with the matching error echoing the SYN's nonce, symmetric derivation of sequence numbers and limits; and over WHOLE histories: a client reports Connect only in a step whose datagrams include a SYN+ACK echoing its own nonce (C07_client_connect_history), a server reports Connect for an address only in a step whose datagrams include, from that address, an ACK carrying a nonce the server has sent to that very address in a SYN+ACK (C07_server_connect_history, proofs/HandshakeHistory.v). Guessing a 32-bit nonce is outside the logic (forged = different from the secret)", 'tie: forge/lifecycle/limits streams (raw peers forging every frame type with chosen nonces at every point)']
THEOREM_STATEMENTS = []
QUICK = {"lifecycle": 40, "forge": 60, "limits": 60, "amplify": 60, "timers": 50}


def streams(seed, tier):
    out = []
    for nm in ["forge", "lifecycle", "limits"]:
        n = QUICK[nm] * (_hc.EP_THOROUGH_FACTOR if tier == "thorough" else 1)
        out.append(getattr(hc_streams, "ep_" + nm)(seed, n))
    return out


def oracle(name, ops, out):
    return _hc.run_oracles({"*": [ep_crash_oracle, handshake_oracle, entry_stability_oracle, single_ack_nonce_oracle, synack_constant_oracle, grammar_oracle]}, name, ops, out)
