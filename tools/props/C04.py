"""C04 — fragmentation and reassembly are exact for every packet size."""
from props import _hc
from hc_oracles import frame_size_oracle, subsequence_oracle, completion_oracle

PROP = "C04"
COQ_FILE = "props/C04.v"
THEOREMS = ["C04_partition", "C04_datagrams_are_fragments", "C04_reassembly_any_order", "C04_first_write_wins", "C04_fragment_fits_frame"]
USES_FLOATS = True
NEEDS_RELEASE = False
ASSUMPTIONS = [
    "theorems are about model/Sender.v (pp_datagram) and model/Receiver.v (FragmentBuffer); that every emitted frame is <= 1472 bytes is checked on the implementation's frames by the oracle and by correspondence, the emitter-level proof is not part of this file",
    "the tie is the pair/ideal/hostile correspondence streams with payload lengths around every multiple of 1448",
]
THEOREM_STATEMENTS = ["C04_reassembly_any_order: forall d order, Forall (fun i => i < nfrag d) order -> let b := fold_left (feed d) order (fb_new (nfrag d)) in fb_finished b = true -> fb_finalize b = d"]


def ideal_completion(ops, out):
    """on a link that loses nothing every submitted packet (Unreliable, Persistent, Reliable) arrives"""
    return completion_oracle(ops, out, modes=(1, 2, 3))


def streams(seed, tier):
    return _hc.build_streams(["pair", "ideal", "hostile", "reuse"], seed, tier, 0.6) + [_hc.codec_roundtrip_stream(seed, tier)]


def oracle(name, ops, out):
    if _hc.stream_of(name) == "rt":
        return _hc.codec_oracle(name, ops, out)
    return _hc.run_oracles({"*": [frame_size_oracle], "pair": [subsequence_oracle], "ideal": [subsequence_oracle, ideal_completion], "reuse": [subsequence_oracle]}, name, ops, out)
