"""C09 — disconnect() flushes reliable data before both sides close."""
import hc_streams
from props import _hc
from hc_oracles import flush_order_oracle, grammar_oracle, ep_crash_oracle

PROP = "C09"
COQ_FILE = "props/C09.v"
THEOREMS = ['C09_flush_disconnect_waits', 'C09_nothing_pending_means_empty', 'C09_server_delivers_before_disconnect', 'C09_client_delivers_before_disconnect', 'C09_retry_budget_constants']
USES_FLOATS = True
NEEDS_RELEASE = False
ASSUMPTIONS = ['proved: flushing disconnect waits until nothing is pending; the receiving side delivers everything before reporting Disconnect; retry budget constants. End-to-end ordering and the 22 s bound are decided by the flush-order oracle and the correspondence under the virtual clock (partial)']
THEOREM_STATEMENTS = []
QUICK = {"lifecycle": 40, "forge": 60, "limits": 60, "amplify": 60, "timers": 50}


def streams(seed, tier):
    out = []
    for nm in ["lifecycle"]:
        n = QUICK[nm] * (_hc.EP_THOROUGH_FACTOR if tier == "thorough" else 1)
        out.append(getattr(hc_streams, "ep_" + nm)(seed, n))
    return out


def oracle(name, ops, out):
    return _hc.run_oracles({"*": [ep_crash_oracle, flush_order_oracle, grammar_oracle]}, name, ops, out)
