"""C08 — the per-connection event stream is well-formed; nothing after the end."""
import hc_streams
from props import _hc
from hc_oracles import grammar_oracle, ep_crash_oracle

PROP = "C08"
COQ_FILE = "props/C08.v"
THEOREMS = ['C08_client_step_grammar', 'C08_client_event_stream_wellformed', 'C08_server_event_stream_wellformed']
USES_FLOATS = True
NEEDS_RELEASE = False
ASSUMPTIONS = ["proved over ALL operation sequences for the Client model (automaton acceptance of the whole event log) and for the Server model (C08_server_event_stream_wellformed: for every history and every address the events about it, with the application's drop calls interleaved, are accepted by Idle -Connect-> Conn -Receive*-> Conn -Disconnect|Error|drop-> Idle; invariant over address table / object states, proofs/ServerGrammar.v)", "the same grammar is checked on the implementation by the grammar oracle on lifecycle/forge/limits streams; tie by correspondence over real sockets"]
THEOREM_STATEMENTS = []
QUICK = {"lifecycle": 40, "forge": 60, "limits": 60, "amplify": 60, "timers": 50}


def streams(seed, tier):
    out = []
    for nm in ["lifecycle", "forge", "limits", "timers"]:
        n = QUICK[nm] * (_hc.EP_THOROUGH_FACTOR if tier == "thorough" else 1)
        out.append(getattr(hc_streams, "ep_" + nm)(seed, n))
    return out


def oracle(name, ops, out):
    return _hc.run_oracles({"*": [ep_crash_oracle, grammar_oracle]}, name, ops, out)
