"""C08 — the per-connection event stream is well-formed; nothing after the end."""
import hc_streams
from props import _hc
from hc_oracles import grammar_oracle, ep_crash_oracle

PROP = "C08"
COQ_FILE = "props/C08.v"
THEOREMS = ['C08_client_step_grammar', 'C08_client_event_stream_wellformed']
USES_FLOATS = True
NEEDS_RELEASE = False
ASSUMPTIONS = ["proved in full for the Client model over ALL operation sequences (automaton acceptance of the whole event log); the Server's per-address grammar is decided by the grammar oracle on the implementation and by correspondence (partial for the server side)"]
THEOREM_STATEMENTS = []
QUICK = {"lifecycle": 40, "forge": 60, "limits": 60, "amplify": 60, "timers": 50}


def streams(seed, tier):
    out = []
    for nm in ["lifecycle", "forge", "limits"]:
        n = QUICK[nm] * (10 if tier == "thorough" else 1)
        out.append(getattr(hc_streams, "ep_" + nm)(seed, n))
    return out


def oracle(name, ops, out):
    return _hc.run_oracles({"*": [ep_crash_oracle, grammar_oracle]}, name, ops, out)
