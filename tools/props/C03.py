"""C03 — no network input can crash or hang an endpoint."""
from props import _hc
from hc_oracles import crash_oracle

PROP = "C03"
COQ_FILE = "props/C03.v"
THEOREMS = ['C03_read_total', 'C03_acknowledge_total', 'C03_rate_step_total', 'C03_receiver_indices_in_range', 'C03_half_connection_total', 'C03_client_total', 'C03_server_total', 'C03_flush_terminates', 'C03_frame_never_panics', 'C03_reachable_invariant', 'C03_endpoint_configs_ok', 'C03_ack_group_total', 'C03_advance_window_total', 'C03_forget_frames_total']
USES_FLOATS = True
NEEDS_RELEASE = True
ASSUMPTIONS = ['proved for all inputs and histories: every panic site and every loop of the model is unreachable / bounded — frame reader, HalfConnection (C03_half_connection_total: send/receive/step/flush/any frame from any reachable state), Client (C03_client_total) and Server (C03_server_total) for every history of steps with any byte datagrams from any addresses, any clock values, any nonces, and any application calls (proofs/ReorderProofs.v, FrameQueueProofs.v, HcTotal.v, HcFlushTotal.v, HcStepTotal.v, HeapCount.v, EndpointTotal.v)', 'outside the model: arithmetic-overflow checks of debug builds where the model computes in unbounded N/Z (wrapping/saturating operations are explicit), allocation failure, socket calls; and the agreement of model and code, which is decided by the hostile/pair/tx/rate/lifecycle/forge streams in debug AND release builds with a hang watchdog']
THEOREM_STATEMENTS = []


def rate_crash(ops, out):
    for l in out:
        if l.startswith(("PANIC", "HANG", "HARNESS")):
            return "rate controller crashed: " + l
    return None


def streams(seed, tier):
    from props import C16
    # the frame reader is the first thing any datagram from the network reaches: the whole codec stream (round
    # trips, bit flips, truncated / extended / patched frames with recomputed CRCs, raw bytes) runs here too
    import hc_streams
    # Client and Server (C03_client_total / C03_server_total) are tied through the endpoint streams: raw peers
    # forging every frame type and sending raw bytes, real clients, all API calls
    scale = _hc.EP_THOROUGH_FACTOR if tier == "thorough" else 1
    ep = [hc_streams.ep_lifecycle(seed, 30 * scale), hc_streams.ep_forge(seed, 40 * scale), hc_streams.ep_amplify(seed, 30 * scale)]
    return _hc.build_streams(["hostile", "pair", "tx", "rate"], seed, tier, 1.0) + C16.streams(seed, tier) + ep


CODEC_KINDS = ("rt", "flip", "mutfix", "raw", "readfix", "crcpat")


def oracle(name, ops, out):
    if name.startswith("rate") or _hc.stream_of(name) in CODEC_KINDS:
        return rate_crash(ops, out) or (("frame reader panicked: %s" % [l for l in out if "PANIC" in l][0]) if any("PANIC" in l for l in out) else None)
    if _hc.stream_of(name) in ("lifecycle", "forge", "amplify"):
        from hc_oracles import ep_crash_oracle
        return ep_crash_oracle(ops, out)
    return crash_oracle(ops, out)
