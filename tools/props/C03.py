"""C03 — no network input can crash or hang an endpoint."""
from props import _hc
from hc_oracles import crash_oracle

PROP = "C03"
COQ_FILE = "props/C03.v"
THEOREMS = ['C03_read_total', 'C03_acknowledge_total', 'C03_rate_step_total', 'C03_receiver_indices_in_range']
USES_FLOATS = True
NEEDS_RELEASE = True
ASSUMPTIONS = ['proved for all inputs: reader totality, acknowledge() totality, rate step totality, receiver index bounds; NOT proved: panic-freedom and termination of the whole HalfConnection/Client/Server composition (partial); decided by hostile/pair/tx/rate streams in debug AND release builds with a hang watchdog, every modelled panic site explicit in the model']
THEOREM_STATEMENTS = []


def rate_crash(ops, out):
    for l in out:
        if l.startswith(("PANIC", "HANG", "HARNESS")):
            return "rate controller crashed: " + l
    return None


def streams(seed, tier):
    return _hc.build_streams(["hostile", "pair", "tx", "rate"], seed, tier, 1.0)


def oracle(name, ops, out):
    return (rate_crash(ops, out) if name.startswith("rate") else crash_oracle(ops, out))
