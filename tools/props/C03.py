"""C03 — no network input can crash or hang an endpoint."""
from props import _hc
from hc_oracles import crash_oracle

PROP = "C03"
COQ_FILE = "props/C03.v"
THEOREMS = ['C03_read_total', 'C03_acknowledge_total', 'C03_rate_step_total', 'C03_receiver_indices_in_range', 'C03_half_connection_total', 'C03_client_total', 'C03_flush_terminates', 'C03_frame_never_panics', 'C03_reachable_invariant', 'C03_endpoint_configs_ok', 'C03_ack_group_total', 'C03_advance_window_total', 'C03_forget_frames_total']
USES_FLOATS = True
NEEDS_RELEASE = True
ASSUMPTIONS = ['proved for all inputs: reader totality, acknowledge() totality, rate step totality, receiver index bounds; and for the HalfConnection as a whole (C03_half_connection_total): in every state reachable by any sequence of send/receive/step/flush/frame operations (configurations as Client/Server build them) every such operation returns normally — no panic site reached, every loop ends within its fuel (invariant over frame log / transfer window / reorder buffer / send window / rate controller / loss intervals; flush terminates by a potential argument): proofs/ReorderProofs.v, FrameQueueProofs.v, HcTotal.v, HcFlushTotal.v, HcStepTotal.v', 'NOT proved: the Client/Server composition around the half-connection (event heap, address table) (partial); decided by hostile/pair/tx/rate/lifecycle streams in debug AND release builds with a hang watchdog, every modelled panic site explicit in the model']
THEOREM_STATEMENTS = []


def rate_crash(ops, out):
    for l in out:
        if l.startswith(("PANIC", "HANG", "HARNESS")):
            return "rate controller crashed: " + l
    return None


def streams(seed, tier):
    return _hc.build_streams(["hostile", "pair", "tx", "rate"], seed, tier, 1.0)


def oracle(name, ops, out):
    return (rate_crash(ops, out) if name.startswith("rate") else crash_oracle(ops, out))
