"""C03 — no network input can crash or hang an endpoint."""
from props import _hc
from hc_oracles import crash_oracle

PROP = "C03"
COQ_FILE = "props/C03.v"
THEOREMS = ['C03_read_total', 'C03_acknowledge_total', 'C03_rate_step_total', 'C03_receiver_indices_in_range', 'C03_frame_never_panics', 'C03_reachable_invariant', 'C03_endpoint_configs_ok', 'C03_ack_group_total', 'C03_advance_window_total', 'C03_forget_frames_total']
USES_FLOATS = True
NEEDS_RELEASE = True
ASSUMPTIONS = ['proved for all inputs: reader totality, acknowledge() totality, rate step totality, receiver index bounds; and for the HalfConnection as a whole: in every state reachable by any sequence of send/receive/step/flush/frame operations (configurations as Client/Server build them), handling any frame returns normally and keeps the frame-queue/sender invariant (C03_frame_never_panics, C03_reachable_invariant: frame log, transfer window and reorder buffer consistency, proofs/ReorderProofs.v, FrameQueueProofs.v, HcTotal.v)', 'NOT proved: termination of the flush emit loops within their fuel, panic-freedom of step()/flush() themselves (the theorem treats a step/flush that does not return as not having happened) and of the Client/Server composition (partial); decided by hostile/pair/tx/rate streams in debug AND release builds with a hang watchdog, every modelled panic site explicit in the model']
THEOREM_STATEMENTS = []


def rate_crash(ops, out):
    for l in out:
        if l.startswith(("PANIC", "HANG", "HARNESS")):
            return "rate controller crashed: " + l
    return None


def streams(seed, tier):
    return _hc.build_streams(["hostile", "pair", "tx", "rate"], seed, tier, 1.0)


def oracle(name, ops, out):
    return (rate_crash(ops, out) if name.startswith("rate") else crash_oracle(ops, out))
