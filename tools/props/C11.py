"""C11 — no loss pattern stalls a connection permanently."""
from props import _hc
from hc_oracles import stall_oracle, crash_oracle, rtt_recovery_oracle

PROP = "C11"
COQ_FILE = "props/C11.v"
THEOREMS = ['C11_sync_due', 'C11_frame_window_resync', 'C11_rate_floor_on_expiry', 'C11_ack_releases_window', 'C11_step_remembers_recent']
USES_FLOATS = True
NEEDS_RELEASE = False
ASSUMPTIONS = ['proved: local correctness of the recovery mechanisms (sync due, frame window resync, rate floor, ack releases window; step() forgets only frames older than max(4*rtt, rto) and keeps every younger one); NOT proved: end-to-end recovery after arbitrary blackouts / rate recovery above the floor (partial); decided by blackout/live streams with the stall oracle', "the rttstep stream (a lasting 20-60x rise of the round-trip time on an ideal link, 70 s of virtual time, no credit override) with rtt_recovery_oracle decides the 'lasting change of the round-trip time' clause on the implementation (defect D21 was found and repaired there)"]
THEOREM_STATEMENTS = []


def streams(seed, tier):
    return _hc.build_streams(["blackout", "live"], seed, tier, 1.2) + _hc.build_streams(["rttstep"], seed, tier, 1.0)


def oracle(name, ops, out):
    if _hc.stream_of(name) == "rttstep":
        return _hc.run_oracles({"*": [crash_oracle, rtt_recovery_oracle]}, name, ops, out)
    return _hc.run_oracles({"*": [crash_oracle, stall_oracle]}, name, ops, out)
