"""C11 — no loss pattern stalls a connection permanently."""
from props import _hc
from hc_oracles import stall_oracle, crash_oracle

PROP = "C11"
COQ_FILE = "props/C11.v"
THEOREMS = ['C11_sync_due', 'C11_frame_window_resync', 'C11_rate_floor_on_expiry', 'C11_ack_releases_window']
USES_FLOATS = True
NEEDS_RELEASE = False
ASSUMPTIONS = ['proved: local correctness of the recovery mechanisms (sync due, frame window resync, rate floor, ack releases window); NOT proved: end-to-end recovery after arbitrary blackouts / rate recovery above the floor (partial); decided by blackout/live streams with the stall oracle']
THEOREM_STATEMENTS = []


def streams(seed, tier):
    return _hc.build_streams(["blackout", "live"], seed, tier, 1.2)


def oracle(name, ops, out):
    return _hc.run_oracles({"*": [crash_oracle, stall_oracle]}, name, ops, out)
