"""C06 — receiver memory stays within max_receive_alloc; senders respect it."""
from props import _hc
from hc_oracles import bounds_oracle, alloc_agreement_oracle

PROP = "C06"
COQ_FILE = "props/C06.v"
THEOREMS = ["C06_recv_alloc_bounded", "C06_recv_alloc_is_sum", "C06_send_bounds", "C06_same_rounding", "C06_half_connection_recv_bounded", "C06_half_connection_send_bounded"]
USES_FLOATS = True
NEEDS_RELEASE = True
ASSUMPTIONS = [
    "receiver half: proved for model/Receiver.v on every datagram/receive/resynchronise sequence; the allocation counter accounts fragment-rounded buffer sizes, real heap bytes (allocator overhead, per-slot constants) are not modelled",
    "sender half: proved for model/Sender.v on every enqueue/emit/acknowledge/ack-fragment sequence",
    "the tie is the hostile/pair/tx correspondence streams: both allocation counters, the window span and the ack-queue length are compared after every operation",
]
THEOREM_STATEMENTS = ["C06_recv_alloc_bounded: forall w b m ops, 0 < w -> r_alloc (fold_left receiver_step ops (receiver_new w b m)) <= ceil_frag_r m"]


def streams(seed, tier):
    return _hc.build_streams(["hostile", "pair", "tx"], seed, tier, 0.7)


def oracle(name, ops, out):
    return _hc.run_oracles({"*": [bounds_oracle], "pair": [alloc_agreement_oracle]}, name, ops, out)
