"""C15 — only genuine, fresh acknowledgements change sender state."""
from props import _hc
from hc_oracles import twin_oracle, crash_oracle, unsent_ack_oracle

PROP = "C15"
COQ_FILE = "props/C15.v"
THEOREMS = ["C15_unknown_frame_identity", "C15_wrong_nonce_identity", "C15_replay_identity", "C15_accept_sound", "C15_feedback_from_fresh_frames"]
USES_FLOATS = True
NEEDS_RELEASE = False
ASSUMPTIONS = [
    "theorems are about model/FrameQueue.v (acknowledge_group on the whole frame-queue + sender state); the effect of the two window-base fields of a replayed ack frame (stale by construction) is covered by the twin-run oracle, not by a theorem",
    "the tie is the twin/tx/hostile/mixack correspondence streams (forged groups, duplicated and delayed genuine ack frames; mixack: fresh groups that also name frames acknowledged earlier, in both nonce parities - correspondence only: such a group is a new acknowledgement, it may legitimately be refused when it spans a forgotten frame and it carries the rate-limited flags of every frame in its span, so no twin verdict is drawn from it)",
]
THEOREM_STATEMENTS = ["C15_replay_identity: forall q s ack rtt, all_claimed_acked q (ag_base ack) (ag_bits ack) 0 (bitfield_size (ag_bits ack)) -> fq_acknowledge_group q s ack rtt = Ok (q, s)"]


def streams(seed, tier):
    return _hc.build_streams(["twin", "tx", "hostile", "mixack"], seed, tier, 0.6)


def oracle(name, ops, out):
    return _hc.run_oracles({"twin": [twin_oracle, crash_oracle], "hostile": [crash_oracle, unsent_ack_oracle], "mixack": [crash_oracle]}, name, ops, out)
