"""C15 — only genuine, fresh acknowledgements change sender state."""
from props import _hc
from hc_oracles import twin_oracle, crash_oracle, unsent_ack_oracle

PROP = "C15"
COQ_FILE = "props/C15.v"
THEOREMS = ["C15_unknown_frame_identity", "C15_wrong_nonce_identity", "C15_replay_identity", "C15_accept_sound"]
USES_FLOATS = True
NEEDS_RELEASE = False
ASSUMPTIONS = [
    "theorems are about model/FrameQueue.v (acknowledge_group on the whole frame-queue + sender state); the effect of the two window-base fields of a replayed ack frame (stale by construction) is covered by the twin-run oracle, not by a theorem",
    "the tie is the twin/tx/hostile correspondence streams (forged groups, duplicated and delayed genuine ack frames)",
]
THEOREM_STATEMENTS = ["C15_replay_identity: forall q s ack rtt, all_claimed_acked q (ag_base ack) (ag_bits ack) 0 (bitfield_size (ag_bits ack)) -> fq_acknowledge_group q s ack rtt = Ok (q, s)"]


def streams(seed, tier):
    return _hc.build_streams(["twin", "tx", "hostile"], seed, tier, 0.6)


def oracle(name, ops, out):
    return _hc.run_oracles({"twin": [twin_oracle, crash_oracle], "hostile": [crash_oracle, unsent_ack_oracle]}, name, ops, out)
