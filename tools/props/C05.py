"""C05 — ideal network: every packet delivered, global order preserved."""
from props import _hc
from hc_oracles import global_order_oracle, completion_oracle, crash_oracle

PROP = "C05"
COQ_FILE = "props/C05.v"
THEOREMS = ['C05_ids_follow_submission_order', 'C05_only_stale_time_sensitive_dropped', 'C05_payload_partition']
USES_FLOATS = True
NEEDS_RELEASE = False
ASSUMPTIONS = ['proved: sender ids follow submission order, only stale TimeSensitive packets are dropped at the sender, payload partition; NOT proved: the end-to-end sequence equality on an ideal network (partial); decided by the ideal stream (no loss/dup/reorder, bursts beyond budget and windows) with global-order and completion oracles']
THEOREM_STATEMENTS = []


def ideal_completion(ops, out):
    return completion_oracle(ops, out, modes=(1, 2, 3))


def streams(seed, tier):
    return _hc.build_streams(["ideal", "ideallat"], seed, tier, 2.0) + [_hc.codec_roundtrip_stream(seed, tier)]


def oracle(name, ops, out):
    if _hc.stream_of(name) == "rt":
        return _hc.codec_oracle(name, ops, out)
    return _hc.run_oracles({"*": [crash_oracle], "ideal": [global_order_oracle, ideal_completion], "ideallat": [global_order_oracle, ideal_completion]}, name, ops, out)
