"""C01 — per-channel delivery is in order, at most once and byte-exact."""
from props import _hc
from hc_oracles import subsequence_oracle, crash_oracle

PROP = "C01"
COQ_FILE = "props/C01.v"
THEOREMS = ['C01_receiver_delivery_log', 'C01_receiver_delivery_order', 'C01_receiver_delivers_productions', 'C01_production_spec', 'C01_sender_ids_and_payload', 'C01_frame_accepted_once', 'C01_slot_produces_once', 'C01_wire_exact', 'C01_reassembly_exact', 'C01_single_fragment_exact']
USES_FLOATS = True
NEEDS_RELEASE = True
ASSUMPTIONS = ['proved over ALL histories of the receiver model (any datagrams, receive() calls, resynchronisations; proofs/ReceiverOrder.v): every packet handed out is tagged (channel, absolute id) with strictly increasing ids per channel: never twice, never out of order on a channel, across wrap-around of ids and slots; and every handed-out packet is a production of the assembly window for that very (channel, absolute id): same channel, same data (proofs/ReceiverData.v)', 'proved: component theorems (sender ids/payload, frame dedupe, one packet per slot generation, exact codec/fragmentation/reassembly); NOT proved: their composition into the network-level subsequence theorem (window agreement under bounded staleness of 20-bit ids) (partial)', 'end-to-end statement decided on the implementation by pair/ideal/live/reuse streams (loss, duplication, reordering, wrap-around bases, windows 2..4096) with unique payloads and the per-channel subsequence oracle']
THEOREM_STATEMENTS = []


def streams(seed, tier):
    return _hc.build_streams(["pair", "ideal", "live", "reuse", "chanmix"], seed, tier, 0.8) + [_hc.codec_roundtrip_stream(seed, tier)]


def oracle(name, ops, out):
    if _hc.stream_of(name) == "rt":
        return _hc.codec_oracle(name, ops, out)
    return _hc.run_oracles({"*": [crash_oracle, subsequence_oracle]}, name, ops, out)
