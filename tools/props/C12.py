"""C12 — transmission behaviour matches the send mode."""
from props import _hc
from hc_oracles import transmission_oracle, crash_oracle, stall_oracle

PROP = "C12"
COQ_FILE = "props/C12.v"
THEOREMS = ['C12_emit_packet', 'C12_pending_entries_flag', 'C12_acked_fragment_marked', 'C12_released_packet_dead', 'C12_dead_entry_not_resent', 'C12_retransmission_kept', 'C12_push_records_reference', 'C12_finalize_logs_recorded_refs', 'C12_send_stamps_epoch', 'C12_step_next_epoch', 'C12_time_sensitive_epoch', 'C12_nothing_else_leaves_the_queue', 'C12_check_push_guarantees_push', 'C12_flush_finishes_frames']
USES_FLOATS = True
NEEDS_RELEASE = False
ASSUMPTIONS = ["proved: staleness test, resend flag, dead references are dropped without transmission (model/Sender.v, HalfConn.v); the at-most-once count over emitted frames is decided by the oracle on the implementation's decoded frames and by correspondence (partial)"]
THEOREM_STATEMENTS = []


def streams(seed, tier):
    return _hc.build_streams(["tx", "pair", "ratepair", "live", "tswin"], seed, tier, 0.7)


def oracle(name, ops, out):
    return _hc.run_oracles({"*": [crash_oracle], "tx": [transmission_oracle], "pair": [transmission_oracle], "ratepair": [transmission_oracle], "live": [transmission_oracle, stall_oracle], "tswin": [transmission_oracle]}, name, ops, out)
