"""C19 — heap discipline: matching deallocations, no leaks on teardown."""
import os, re, subprocess
import hc_streams, vlib
from props import _hc
from hc_oracles import crash_oracle

PROP = "C19"
COQ_FILE = "props/C19.v"
THEOREMS = ["C19_reassembly_buffer_balanced", "C19_before_fix_refuted", "C19_before_fix_unbalanced"]
USES_FLOATS = True
NEEDS_RELEASE = False
ASSUMPTIONS = [
    "proved: the allocator-call ledger of the reassembly buffer is balanced for every fragment count and size (and was not before the repair); the pairing of allocations in safe Rust and std is the compiler's guarantee and is only OBSERVED: checking global allocator in the harness (layout compared at every dealloc, live bytes compared after every teardown), plus an inventory of the library's `unsafe` items (partial)",
]
THEOREM_STATEMENTS = ["C19_reassembly_buffer_balanced: forall n total, 0 < n -> balanced (fragment_buffer_ledger n total)"]

# the `unsafe` items the library is known to contain: two marker impls, nothing else
EXPECTED_UNSAFE = ["unsafe impl Send for HalfConnection {}", "unsafe impl Sync for HalfConnection {}"]


def streams(seed, tier):
    return _hc.build_streams(["pair", "hostile", "reuse"], seed, tier, 0.4)


def oracle(name, ops, out):
    return crash_oracle(ops, out)


def unsafe_inventory():
    found = []
    src = os.path.join(vlib.REPO, "src")
    for root, _, files in os.walk(src):
        for f in files:
            if not f.endswith(".rs"):
                continue
            txt = open(os.path.join(root, f)).read()
            cut = txt.find("#[cfg(test)]\nmod tests")
            body = txt if cut < 0 else txt[:cut]
            for line in body.splitlines():
                code = line.split("//")[0]
                if re.search(r"\bunsafe\b", code):
                    found.append(code.strip())
    return found


def post(impl_exe, tier, seed):
    """Extra implementation-only checks: unsafe inventory, checking allocator over the streams."""
    fails = []
    inv = unsafe_inventory()
    extra = [u for u in inv if u not in EXPECTED_UNSAFE]
    if extra:
        fails.append(("the library contains `unsafe` code outside the audited inventory: %s" % extra[:3],
                      "# unsafe inventory changed\n" + "\n".join(extra) + "\n"))
    env = dict(vlib.ENV)
    env["VERIF_MEM"] = "1"
    stats = {"cases": 0, "max_live": 0}
    for st in streams(seed + 17, tier):
        d = os.path.join(vlib.RUN_DIR, PROP, "mem")
        os.makedirs(d, exist_ok=True)
        path = os.path.join(d, st["stream"] + ".script")
        with open(path, "w") as f:
            for name, ops in st["cases"]:
                f.write("case %s\n" % name + "\n".join(ops) + "\n")
            f.write("case end\n")
        p = subprocess.run([impl_exe, st["mode"], path], stdout=subprocess.PIPE, stderr=subprocess.PIPE, env=env, timeout=900)
        lines = [l for l in p.stdout.decode("utf-8", "replace").splitlines() if l.startswith(("mem ", "case "))]
        lives, names = [], []
        for i, l in enumerate(lines):
            if l.startswith("mem "):
                m = re.match(r"mem live=(\d+) mismatches=(\d+) (.*)", l)
                lives.append(int(m.group(1)))
                names.append(lines[i - 1][5:] if i else "?")
                if int(m.group(2)) > 0:
                    # the mismatch happened in the case before this teardown
                    prev = names[-2] if len(names) > 1 else names[-1]
                    ops = dict(st["cases"]).get(prev, [])
                    fails.append(("a heap block was released with a layout different from its allocation (%s), first seen after case %s" % (m.group(3), prev),
                                  "# property=C19 stream=%s mode=%s\ncase %s\n%s\n" % (st["stream"], st["mode"], prev, "\n".join(ops))))
                    break
        stats["cases"] += len(st["cases"])
        if lives:
            stats["max_live"] = max(stats["max_live"], max(lives))
        # after the first few cases (harness buffers reach their steady size) the live bytes after teardown must not grow
        steady = lives[3:]
        for i in range(1, len(steady)):
            if steady[i] > steady[i - 1] + 64:
                prev = names[3 + i - 1]
                ops = dict(st["cases"]).get(prev, [])
                # Growth between two teardowns can also be a buffer of the harness or of the runtime reaching a new
                # size once (seen with seed 3: 368 bytes, once). A leak of the library grows again every time the same
                # case is run: repeat the case in a fresh process and compare the later repetitions with each other.
                rp = os.path.join(d, "repeat.script")
                with open(rp, "w") as f:
                    for k in range(6):
                        f.write("case rep%d\n" % k + "\n".join(ops) + "\n")
                    f.write("case end\n")
                q = subprocess.run([impl_exe, st["mode"], rp], stdout=subprocess.PIPE, stderr=subprocess.PIPE, env=env, timeout=900)
                rl = [int(m.group(1)) for m in re.finditer(r"^mem live=(\d+) ", q.stdout.decode("utf-8", "replace"), re.M)]
                # rl[k] = live bytes after the teardown of repetition k (k = 0..5)
                if len(rl) >= 6 and rl[5] > rl[2] + 64 and rl[4] > rl[2] and rl[5] > rl[3]:
                    fails.append(("%d bytes more stay allocated after every run of case %s (teardown included): %s" % ((rl[5] - rl[2]) // 3, prev, rl),
                                  "# property=C19 stream=%s mode=%s\ncase %s\n%s\n" % (st["stream"], st["mode"], prev, "\n".join(ops))))
                    break
                stats["one_time_growth"] = stats.get("one_time_growth", 0) + 1
    return fails, stats
