"""C14 — the allowed send rate obeys the RFC 5348 bounds."""
from props import _hc
from hc_oracles import rate_oracle

PROP = "C14"
COQ_FILE = "props/C14.v"
THEOREMS = ["C14_eqn_bound", "C14_slowstart_bound", "C14_first_loss_bound", "C14_nofeedback_bounds", "C14_ceiling_reachable", "C14_rtt_ewma", "C14_step_total"]
USES_FLOATS = True
NEEDS_RELEASE = True
TRUSTED = ["Coq primitive floats (PrimFloat, FloatAxioms: IEEE 754 binary64 of the kernel) for the model's arithmetic"]
ASSUMPTIONS = [
    "theorems are about model/SendRate.v; float-valued terms (throughput equation, initial rates) are opaque in the proofs: the bounds hold for all their values; that the formula is the RFC's is by inspection of eval_tcp_throughput plus the oracle's independent re-computation",
    "ceilings >= one frame per second (MSS <= max_send_rate), as in the property",
    "the tie is the rate correspondence stream: X, mode, RTT (bit-exact), RTO, no-feedback deadline and X_recv_set compared after every step, debug and release",
]
THEOREM_STATEMENTS = ["C14_nofeedback_bounds: SrInv c -> MINIMUM_RATE <= sr_max_rate c -> src_nofeedback_expired c now = Ok c' -> SrInv c' /\\ sr_rate c' <= max (sr_rate c) MINIMUM_RATE /\\ (sr_rate c' = sr_rate c \\/ MINIMUM_RATE <= sr_rate c')"]


def streams(seed, tier):
    return _hc.build_streams(["rate"], seed, tier, 1.0)


def oracle(name, ops, out):
    return rate_oracle(ops, out)
