"""C02 — Reliable packets are never skipped and are eventually delivered."""
from props import _hc
from hc_oracles import reliable_order_oracle, stall_oracle, crash_oracle

PROP = "C02"
COQ_FILE = "props/C02.v"
THEOREMS = ['C02_window_never_passes_stored_packet', 'C02_sync_due', 'C02_rate_floor', 'C02_retransmission_kept', 'C02_sync_packet_id_only_when_idle']
USES_FLOATS = True
NEEDS_RELEASE = False
ASSUMPTIONS = ["proved: receive window never passes a stored undelivered packet, sync frames are due, rate floor; NOT proved: end-to-end ordering w.r.t. the sender's submission order and bounded-time delivery (liveness through the float rate dynamics) (partial)", 'liveness oracle: no progress over the last 24 loss-free rounds (60 s virtual) while work is pending = stall']
THEOREM_STATEMENTS = []


def streams(seed, tier):
    return _hc.build_streams(["pair", "live", "blackout"], seed, tier, 0.8)


def oracle(name, ops, out):
    return _hc.run_oracles({"*": [crash_oracle, reliable_order_oracle], "live": [stall_oracle], "blackout": [stall_oracle]}, name, ops, out)
