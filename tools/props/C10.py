"""C10 — timeouts fire after, and only after, the configured silence."""
import hc_streams
from props import _hc
from hc_oracles import server_deadline_oracle, timeout_oracle, ep_crash_oracle, server_disconnect_oracle, pending_budget_oracle, keepalive_oracle

PROP = "C10"
COQ_FILE = "props/C10.v"
THEOREMS = ['C10_client_timer_semantics', 'C10_rx_refreshes_deadline', 'C10_deadline_counts_from_connect', 'C10_handshake_budget_constants', 'C10_client_handshake_timeout_history', 'C10_client_active_timeout_history', 'C10_client_active_deadline_exact', 'C10_client_closing_timeout_history', 'C10_client_no_other_timeout', 'C10_server_timer_budget', 'C10_server_give_up_after_budget', 'C10_server_no_give_up_with_resends_left', 'C10_server_active_deadline_history', 'C10_server_last_heard', 'C10_server_active_timeout_rule', 'C10_server_active_listed_history', 'C10_server_step_pass', 'C10_server_step_active_timeout', 'C10_keepalive_due', 'C10_sync_arms_reply', 'C10_reply_emits_ack']
USES_FLOATS = True
NEEDS_RELEASE = False
ASSUMPTIONS = ['proved for the Client model over whole histories (TimeoutHistory.v): handshake Error(Timeout) no earlier than 22 s after connect() and after ten resends; active Error(Timeout) only if every step with a data/sync/ack frame (and the Connect step) lies at least active_timeout back, deadline exactly active_timeout after a step with a frame from the server, silent step at/past it reports; disconnect Error(Timeout) no earlier than 22 s after the first Disconnect request; no timeout in other phases; plus exact per-step timer semantics. Server, over whole histories (ServerTimeouts.v): every SYN+ACK / Disconnect resend timer of a pending / closing entry keeps the remaining part of the 22 s budget ahead of it, counted from the step that accepted the request / began the disconnect, so the timer loop gives up (forgets the entry, reports Error(Timeout)) no earlier than 22 s after the attempt began and never while resends are left. Keepalive sufficiency (two endpoints and a network) is decided by the timers/lifecycle streams (virtual clock) with the timeout oracles and the correspondence (partial)', 'proved for the Server model over whole histories (ServerActive.v): the deadline of every established entry equals (server clock of the last step whose input held a handshake-ACK, data, sync or ack frame from its address, a quantity fixed by the datagrams alone) + active_timeout_ms, and the timeout pass forgets a listed established entry and reports Error(Timeout) exactly when that deadline is reached and changes no other entry; every established entry is in the list that pass walks, at the pass of every step of every history (C10_server_active_listed_history, C10_server_step_pass)']
THEOREM_STATEMENTS = []
QUICK = {"lifecycle": 40, "forge": 60, "limits": 60, "amplify": 60, "timers": 50}


def streams(seed, tier):
    out = []
    for nm in ["timers", "lifecycle"]:
        n = QUICK[nm] * (_hc.EP_THOROUGH_FACTOR if tier == "thorough" else 1)
        out.append(getattr(hc_streams, "ep_" + nm)(seed, n))
    return out


def oracle(name, ops, out):
    return _hc.run_oracles({"*": [ep_crash_oracle, timeout_oracle, server_deadline_oracle, server_disconnect_oracle, pending_budget_oracle], "timers": [keepalive_oracle]}, name, ops, out)
