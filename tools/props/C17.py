"""C17 — the server enforces its connection limits."""
import hc_streams
from props import _hc
from hc_oracles import pending_budget_oracle, limits_oracle, ep_crash_oracle

PROP = "C17"
COQ_FILE = "props/C17.v"
THEOREMS = ['C17_limits_reachable', 'C17_refused_when_full', 'C17_promotion_checked']
USES_FLOATS = True
NEEDS_RELEASE = False
ASSUMPTIONS = ['proved for the Server model (model/Endpoint.v) over ALL operation sequences: |clients| <= max_total and |active_clients| <= max_active; the active list contains every established connection (promotion appends, the step prunes)', "tie: limits/lifecycle/forge correspondence streams over real UDP sockets with the virtual clock; oracle counts established (A) and tracked connections in the implementation's own state dump"]
THEOREM_STATEMENTS = []
QUICK = {"lifecycle": 40, "forge": 60, "limits": 60, "amplify": 60, "timers": 50}


def streams(seed, tier):
    out = []
    for nm in ["limits", "lifecycle", "forge"]:
        n = QUICK[nm] * (_hc.EP_THOROUGH_FACTOR if tier == "thorough" else 1)
        out.append(getattr(hc_streams, "ep_" + nm)(seed, n))
    return out


def oracle(name, ops, out):
    return _hc.run_oracles({"*": [ep_crash_oracle, limits_oracle, pending_budget_oracle]}, name, ops, out)
