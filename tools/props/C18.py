"""C18 — unverified addresses cannot use the server as an amplifier."""
import hc_streams
from props import _hc
from hc_oracles import amplification_oracle, ep_crash_oracle

PROP = "C18"
COQ_FILE = "props/C18.v"
THEOREMS = ['C18_request_is_full_size', 'C18_reply_sizes', 'C18_untracked_address_only_answers_requests', 'C18_pending_address_gets_nothing_for_frames', 'C18_pending_resend_budget']
USES_FLOATS = True
NEEDS_RELEASE = False
ASSUMPTIONS = ['proved: only a 1472-byte datagram parses as a connection request; replies are 25 / 10 bytes; (10+1)*25 < 1472; untracked and pending addresses get nothing for any other frame; the pending timer sends one stored reply per expiry with a decreasing budget. The summation over a history is checked by the per-address byte-count oracle (partial in that respect)']
THEOREM_STATEMENTS = []
QUICK = {"lifecycle": 40, "forge": 60, "limits": 60, "amplify": 60, "timers": 50}


def streams(seed, tier):
    out = []
    for nm in ["amplify", "forge", "limits"]:
        n = QUICK[nm] * (10 if tier == "thorough" else 1)
        out.append(getattr(hc_streams, "ep_" + nm)(seed, n))
    return out


def oracle(name, ops, out):
    return _hc.run_oracles({"*": [ep_crash_oracle, amplification_oracle]}, name, ops, out)
