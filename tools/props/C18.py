"""C18 — unverified addresses cannot use the server as an amplifier."""
import hc_streams
from props import _hc
from hc_oracles import pending_budget_oracle, amplification_oracle, ep_crash_oracle

PROP = "C18"
COQ_FILE = "props/C18.v"
THEOREMS = ['C18_request_is_full_size', 'C18_reply_sizes', 'C18_untracked_address_only_answers_requests', 'C18_pending_address_gets_nothing_for_frames', 'C18_pending_resend_budget', 'C18_no_amplification']
USES_FLOATS = True
NEEDS_RELEASE = False
ASSUMPTIONS = ['proved: only a 1472-byte datagram parses as a connection request; replies are 25 / 10 bytes; (10+1)*25 < 1472; untracked and pending addresses get nothing for any other frame; the pending timer sends one stored reply per expiry with a decreasing budget; and over WHOLE histories (C18_no_amplification): for every history of server steps with any datagrams from any addresses and any clock values, flushes and application calls, and every address A with no Connect event, 1472 * bytes sent to A <= 275 * bytes received from A (potential: bytes sent + 25 * retransmissions still held by the timer heap for the pending entry; proofs/ServerBytes.v, HeapCount.v). The per-address byte-count oracle checks the same on the implementation']
THEOREM_STATEMENTS = []
QUICK = {"lifecycle": 40, "forge": 60, "limits": 60, "amplify": 60, "timers": 50}


def streams(seed, tier):
    out = []
    for nm in ["amplify", "forge", "limits"]:
        n = QUICK[nm] * (_hc.EP_THOROUGH_FACTOR if tier == "thorough" else 1)
        out.append(getattr(hc_streams, "ep_" + nm)(seed, n))
    return out


def oracle(name, ops, out):
    return _hc.run_oracles({"*": [ep_crash_oracle, amplification_oracle, pending_budget_oracle]}, name, ops, out)
