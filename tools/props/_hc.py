"""Helpers shared by the property modules that use the half-connection / rate correspondence streams."""
import hc_streams
import hc_oracles as O

QUICK = {"pair": 120, "ideal": 50, "live": 40, "blackout": 30, "ratepair": 50, "hostile": 200, "tx": 80, "rate": 500, "twin": 80, "reuse": 60, "ackflood": 12, "chanmix": 60, "tswin": 60, "ideallat": 40, "cadence": 10, "mixack": 60, "rttstep": 6}
import os
# depth of the thorough tier (overridable for a quicker self-validation run of the machinery)
THOROUGH_FACTOR = int(os.environ.get("VERIF_THOROUGH_FACTOR", "12"))
EP_THOROUGH_FACTOR = int(os.environ.get("VERIF_EP_THOROUGH_FACTOR", os.environ.get("VERIF_THOROUGH_FACTOR", "10")))

STREAM_FN = {
    "pair": hc_streams.pair_faulty, "ideal": hc_streams.pair_ideal, "live": hc_streams.pair_liveness,
    "blackout": hc_streams.pair_blackout, "ratepair": hc_streams.pair_nocredit, "hostile": hc_streams.hostile, "ackflood": hc_streams.ackflood, "chanmix": hc_streams.chanmix, "tswin": hc_streams.tswin, "ideallat": hc_streams.ideallat, "cadence": hc_streams.cadence, "mixack": hc_streams.mixack, "rttstep": hc_streams.rttstep,
    "tx": hc_streams.tx, "rate": hc_streams.rate, "twin": hc_streams.twin, "reuse": hc_streams.reuse,
}


def build_streams(names, seed, tier, scale=1.0):
    out = []
    for nm in names:
        n = int(QUICK[nm] * scale * (THOROUGH_FACTOR if tier == "thorough" else 1))
        out.append(STREAM_FN[nm](seed, max(4, n)))
    return out


def stream_of(case_name):
    return case_name.rstrip("0123456789")


def run_oracles(table, case_name, ops, out):
    """table: {stream name: [oracle functions]}; '*' applies to every stream."""
    st = stream_of(case_name)
    for fn in table.get("*", []) + table.get(st, []):
        f = fn(ops, out)
        if f:
            return f
    return None


def codec_roundtrip_stream(seed, tier):
    """The encode/decode round-trip cases of the C16 codec stream (mode `codec`): the wire format is part of every
    end-to-end property, so the properties that rest on byte-exact transport run them too."""
    from props import C16
    st = C16.streams(seed, tier)[0]
    cases = [(nm, ops) for (nm, ops) in st["cases"] if nm.startswith("rt")]
    return dict(stream="codec", mode="codec", cases=cases, hist={"rt": len(cases)})


def codec_oracle(name, ops, out):
    from props import C16
    return C16.oracle(name, ops, out)
