"""C16 — frame codec round-trips, rejects malformed input, CRC catches <= 4 flips."""
import random
from gen_frames import frame_spec, hexbytes

PROP = "C16"
COQ_FILE = "props/C16.v"
THEOREMS = ["C16_roundtrip", "C16_read_total", "C16_crc_hd", "C16_frame_flips_rejected"]
TRUSTED = []
ASSUMPTIONS = [
    "model/Codec.v is a hand transcription of src/frame/serial/{mod,build,crc}.rs; tied by the codec correspondence stream",
    "constants and the CRC table are re-extracted from the source on every run (gen/Consts.v)",
]
NEEDS_RELEASE = False
# coqchk (thorough tier) re-checks everything except the 32 files that only contain the sharded exhaustive search
COQCHK_ADMIT = ["UF.CrcHdShard%02d" % i for i in range(32)]


def streams(seed, tier):
    r = random.Random(seed * 7919 + 16)
    import os
    n = 600 if tier == "quick" else 600 * int(os.environ.get("VERIF_THOROUGH_FACTOR", "10"))
    cases = []
    hist = {}
    def add(kind, ops):
        hist[kind] = hist.get(kind, 0) + 1
        cases.append(("%s%05d" % (kind, len(cases)), ops))
    for i in range(n):
        k = r.random()
        if k < 0.35:
            add("rt", ["rt " + frame_spec(r)])
        elif k < 0.60:
            nf = r.choice([1, 1, 2, 2, 3, 3, 4, 4])
            pos = [r.randrange(1472 * 8) for _ in range(nf)]
            if r.random() < 0.3:   # cluster flips in the trailing CRC / header
                pos = [r.choice([r.randrange(40), 10**6 - r.randrange(1, 33)]) for _ in range(nf)]
            elif r.random() < 0.25:   # all flips inside one of the last bytes before the CRC field (counted from the end)
                b = r.choice([0, 0, 1, 2, 3])
                pos = r.sample([32 + 8 * b + k for k in range(8)], nf)
                add("flip", ["flipend %d %s | %s" % (nf, " ".join(map(str, pos)), frame_spec(r))])
                continue
            add("flip", ["flip %d %s | %s" % (nf, " ".join(map(str, pos)), frame_spec(r))])
        elif k < 0.85:
            m = r.random()
            if m < 0.35:
                mut = "trunc %d" % r.choice([1, 1, 2, 3, 4, 5, 9, 14, r.randrange(1, 2000)])
            elif m < 0.65:
                mut = "append %s" % hexbytes(r, r.choice([1, 1, 2, 4, 6, 9, 14]))
            else:
                mut = "set %d %d" % (r.choice([0, 0, 1, 5, 6, 9, 10, r.randrange(0, 1500)]), r.choice([0, 1, 2, 3, 4, 5, 6, 9, 10, 11, 12, 13, 127, 128, 255, r.randrange(256)]))
            add("mutfix", ["mutfix %s | %s" % (mut, frame_spec(r))])
        elif k < 0.90:
            add("raw", ["read " + hexbytes(r, r.choice([0, 1, 4, 5, 6, 9, 14, 25, r.randrange(0, 1473)]))])
        elif k < 0.95:
            # a data frame with a correct CRC whose last datagram is cut inside (or right after) its header:
            # class byte of a micro / small / large header followed by fewer bytes than that header needs
            ndg = r.choice([1, 1, 2])
            body = "0a" + "".join("%02x" % r.randrange(256) for _ in range(4)) + "%02x" % (ndg | (128 if r.random() < 0.5 else 0))
            if ndg == 2:
                body += "02" + "".join("%02x" % r.randrange(256) for _ in range(5)) + "aabb"     # a complete micro datagram first
            cls = r.choice([0x00, 0x80, 0x80, 0xC0, 0xC0])
            first = cls | r.randrange(64)
            k = r.choice([1, 2, 5, 6, 6, 7, 8, 9, 10, 12, 13, 14])
            body += "%02x" % first + "".join("%02x" % r.choice([0, 1, 2, r.randrange(256)]) for _ in range(k - 1))
            add("readfix", ["readfix " + body])
        else:
            body = "%02x" % r.choice([0, 1, 2, 3, 4, 5, 6, 9, 10, 11, 12, 13, 255])
            body += hexbytes(r, r.choice([0, 4, 5, 9, 10, 19, 20, 21, 1466, 1467, r.randrange(0, 64)])).replace("-", "")
            add("readfix", ["readfix " + body])
    return [dict(stream="codec", mode="codec", cases=cases, hist=hist)]


def search_streams(seed):
    """After a proof break: 1..4-bit patterns that the CRC now in /repo would not detect (tools/crc_search.py,
    computed from the table in the source), each to be replayed on the implementation."""
    import subprocess, shutil, sys, os
    here = os.path.dirname(os.path.abspath(__file__))
    py = shutil.which("python3-vt") or sys.executable
    spec = [0, 1, 2, 3, 4]
    try:
        out = subprocess.run([py, os.path.join(here, "..", "crc_search.py"), "/repo"] + [str(x) for x in spec],
                             capture_output=True, text=True, timeout=300).stdout
    except Exception:
        return []
    cases = []
    for line in out.splitlines():
        if line.startswith("flip "):
            cases.append(("crcpat%03d" % len(cases), ["%s | syn %s" % (line.strip(), " ".join(map(str, spec)))]))
    return [dict(stream="codec", mode="codec", cases=cases, hist={"crcpat": len(cases)})] if cases else []


def oracle(case_name, ops, out):
    """Property oracle on the implementation's observations. Returns None or a failure text."""
    if any("PANIC" in l or "HARNESS" in l for l in out):
        return "parsing or writing panicked: %s" % [l for l in out if "PANIC" in l or "HARNESS" in l][0]
    op = ops[0]
    if op.startswith("rt "):
        spec = op[3:]
        if len(out) < 2 or out[1] != "read: " + spec:
            return "round trip differs: read(write(f)) = %r" % (out[1][:200] if len(out) > 1 else None)
    elif op.startswith("flip ") or op.startswith("flipend "):
        m = out[0].split(" ", 2)
        nlen = int(m[1])
        npos = len([p for p in m[2].strip("[]").split(",") if p.strip()])
        if nlen <= 1472 and 1 <= npos <= 4 and out[1] != "read: none":
            return "frame with %d flipped bits accepted: %s" % (npos, out[1][:200])
    elif op.startswith("mutfix "):
        mut = op.split("|")[0].split()
        if mut[1] in ("append", "trunc") and int(mut[2] if mut[1] == "trunc" else 1) >= 1:
            if out[1] != "read: none":
                return "frame with missing/trailing bytes accepted: %s" % out[1][:200]
    return None
