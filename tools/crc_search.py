#!/usr/bin/env python3
"""Search for an undetected 1..4-bit error pattern of the CRC that /repo currently implements.

Used by the C16 check only after the Hamming-distance proof (coq/crc_hd) stopped checking: the proof says
no such pattern exists for the pinned table, so when it breaks this looks for a concrete one.  The table
is read from the source (not from the model).  Candidates are computed on one maximal frame (a SYN frame,
always 1472 bytes) under the assumption that flipping bits changes the CRC independently per bit; every
candidate is then replayed on the implementation by the caller, so a wrong assumption costs only a miss.

usage: crc_search.py <repo> <syn-spec numbers v n a b c>   -> prints lines "flip <k> <p1> .. <pk>"
Needs numpy (python3-vt); without it only 1- and 2-bit patterns are searched."""
import re, sys, os

def table(repo):
    src = open(os.path.join(repo, "src/frame/serial/crc.rs")).read()
    m = re.search(r'static\s+PARTIAL_RESULTS\s*:\s*\[u32;\s*256\]\s*=\s*\[(.*?)\];', src, re.S)
    words = [int(w, 0) for w in re.findall(r'0x[0-9A-Fa-f]+|\d+', m.group(1))]
    m = re.search(r'static\s+INITIAL_CRC\s*:\s*u32\s*=\s*(\w+)\s*;', src)
    return words, int(m.group(1), 0)

def be32(x): return [(x >> 24) & 255, (x >> 16) & 255, (x >> 8) & 255, x & 255]

def main():
    repo = sys.argv[1]
    v, n, a, b, c = [int(x) for x in sys.argv[2:7]]
    T, init = table(repo)
    nbytes = 1472
    body = [0, v & 255] + be32(n) + be32(a) + be32(b) + be32(c)
    body += [0] * (nbytes - 4 - len(body))
    nb = len(body)
    try:
        import numpy as np
    except ImportError:
        np = None
    out = []
    if np is None:
        def crc(d):
            r = init
            for x in d: r = (r >> 8) ^ T[(r ^ x) & 255]
            return r
        base = crc(body)
        seen = {}
        for i in list(range(0, 64)) + list(range(nb - 64, nb)):
            for j in range(8):
                d = list(body); d[i] ^= 1 << j
                s = crc(d) ^ base
                if bin(s).count("1") <= 3:
                    ps = [8 * i + j] + [8 * (nb + 3 - t // 8) + t % 8 for t in range(32) if s >> t & 1]
                    out.append(ps)
                if s in seen: out.append([seen[s], 8 * i + j])
                seen[s] = 8 * i + j
    else:
        Tn = np.array(T, dtype=np.uint32)
        nv = nb * 8
        reg = np.full(nv + 1, init, dtype=np.uint32)          # variant nv = unmodified
        idx = np.arange(nv)
        for k in range(nb):
            byte = np.full(nv + 1, body[k], dtype=np.uint32)
            byte[8 * k: 8 * k + 8] ^= (1 << np.arange(8)).astype(np.uint32)
            reg = (reg >> np.uint32(8)) ^ Tn[(reg ^ byte) & np.uint32(255)]
        base = reg[nv]
        synd = reg[:nv] ^ base
        # the 32 bits of the stored CRC: frame bit 8*(nb+c)+j is bit 8*(3-c)+j of the value
        crcbits = np.array([1 << (8 * (3 - c_) + j) for c_ in range(4) for j in range(8)], dtype=np.uint32)
        s = np.concatenate([synd, crcbits, np.array([0], dtype=np.uint32)])   # last = "no flip"
        n = len(s)
        rows = []
        for i in range(n - 1):
            rows.append(s[i] ^ s[i + 1:])
        P = np.concatenate(rows)
        order = np.argsort(P, kind="stable")
        Ps = P[order]
        dup = np.nonzero(Ps[1:] == Ps[:-1])[0]
        starts = np.cumsum([0] + [n - 1 - i for i in range(n - 1)])
        def unrank(k):
            i = int(np.searchsorted(starts, k, side="right") - 1)
            return i, i + 1 + int(k - starts[i])
        seen = set()
        for d in dup[:200]:
            p1 = unrank(int(order[d])); p2 = unrank(int(order[d + 1]))
            pat = set(p1) ^ set(p2)
            pat.discard(n - 1)
            if not pat or len(pat) > 4: continue
            key = tuple(sorted(pat))
            if key in seen: continue
            seen.add(key)
            out.append(list(key))
    for ps in out[:50]:
        print("flip %d %s" % (len(ps), " ".join(map(str, ps))))

if __name__ == "__main__":
    main()
