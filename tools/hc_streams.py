"""Named correspondence streams for the half-connection model (mode `hc`) and the rate model (mode `rate`)."""
import random
import gen_hc


def _mk(stream, mode, gen, n, seed):
    r = random.Random(seed)
    cases, hist = [], {}
    for i in range(n):
        ops = gen(r)
        cases.append(("%s%05d" % (stream, i), ops))
        for o in ops:
            k = o.split()[0]
            hist[k] = hist.get(k, 0) + 1
    return dict(stream=stream, mode=mode, cases=cases, hist=hist)


def pair_faulty(seed, n):
    return _mk("pair", "hc", lambda r: gen_hc.pair_case(r)[0], n, seed * 101 + 1)

def pair_ideal(seed, n):
    return _mk("ideal", "hc", lambda r: gen_hc.pair_case(r, ideal=True, drain=40)[0], n, seed * 101 + 2)

def pair_liveness(seed, n):
    return _mk("live", "hc", lambda r: gen_hc.pair_case(r, drain=60)[0], n, seed * 101 + 3)

def pair_blackout(seed, n):
    return _mk("blackout", "hc", lambda r: gen_hc.pair_case(r, rounds=r.choice([9, 15, 30]), drain=60, blackout=True)[0], n, seed * 101 + 4)

def pair_nocredit(seed, n):
    return _mk("ratepair", "hc", lambda r: gen_hc.pair_case(r, use_credit=False, rounds=r.choice([10, 30, 60]))[0], n, seed * 101 + 5)

def ackflood(seed, n):
    return _mk("ackflood", "hc", gen_hc.ackflood_case, n, seed * 101 + 16)

def chanmix(seed, n):
    return _mk("chanmix", "hc", gen_hc.chanmix_case, n, seed * 101 + 17)

def tswin(seed, n):
    return _mk("tswin", "hc", gen_hc.tswin_case, n, seed * 101 + 18)

def ideallat(seed, n):
    return _mk("ideallat", "hc", gen_hc.ideallat_case, n, seed * 101 + 19)

def cadence(seed, n):
    return _mk("cadence", "hc", gen_hc.cadence_case, n, seed * 101 + 20)

def rttstep(seed, n):
    return _mk("rttstep", "hc", gen_hc.rttstep_case, n, seed * 101 + 22)

def hostile(seed, n):
    return _mk("hostile", "hc", lambda r: gen_hc.hoard_case(r) if r.random() < 0.12 else gen_hc.hostile_case(r), n, seed * 101 + 6)

def tx(seed, n):
    return _mk("tx", "hc", gen_hc.tx_case, n, seed * 101 + 7)

def rate(seed, n):
    return _mk("rate", "rate", gen_hc.rate_case, n, seed * 101 + 8)

def twin(seed, n):
    return _mk("twin", "hc", gen_hc.twin_case, n, seed * 101 + 9)

def mixack(seed, n):
    return _mk("mixack", "hc", gen_hc.mixack_case, n, seed * 101 + 21)

def reuse(seed, n):
    return _mk("reuse", "hc", gen_hc.reuse_case, n, seed * 101 + 10)

import gen_ep

def ep_lifecycle(seed, n):
    return _mk("lifecycle", "ep", gen_ep.lifecycle_case, n, seed * 101 + 11)

def ep_forge(seed, n):
    return _mk("forge", "ep", gen_ep.forge_case, n, seed * 101 + 12)

def ep_limits(seed, n):
    return _mk("limits", "ep", gen_ep.limits_case, n, seed * 101 + 13)

def ep_amplify(seed, n):
    return _mk("amplify", "ep", gen_ep.amplify_case, n, seed * 101 + 14)

def ep_timers(seed, n):
    return _mk("timers", "ep", gen_ep.timers_case, n, seed * 101 + 15)
