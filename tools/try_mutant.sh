#!/bin/bash
# usage: tools/try_mutant.sh <patch.diff> <PROP> [<PROP>...]
# Applies a seeded change to /repo, runs the given checks, and always reverts /repo afterwards.
set -u
patch="$(readlink -f "$1")"; shift
cd /repo || exit 2
if ! git apply --check "$patch" 2>/dev/null; then echo "PATCH DOES NOT APPLY: $patch"; exit 3; fi
git apply "$patch"
trap 'git -C /repo checkout -- . ; git -C /repo clean -fdq src tests 2>/dev/null' EXIT
cd /verif
for p in "$@"; do
  out=$(./check "$p" 2>&1)
  rc=$?
  echo "== $p rc=$rc"
  echo "$out" | grep -E "VIOLATION|KNOWN-FINDING|PASS|FAIL" | head -4
  echo "$out" | grep -A1 VIOLATION | grep "^\[check\]   " | head -2 | cut -c1-300
done
