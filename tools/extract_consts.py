#!/usr/bin/env python3
"""Translator: protocol constants and tables of /repo/src  ->  coq/gen/Consts.v

Regenerated on every check run, so every theorem stated over these names is re-checked against
the numbers the Rust source contains *now*.  Fails loudly (exit 2) when an expected item is
missing or its right-hand side is not a literal / arithmetic over already extracted names.
"""
import re, sys, os

REPO = os.environ.get("UFLOW_REPO", "/repo")
OUT = sys.argv[1] if len(sys.argv) > 1 else "/verif/coq/gen/Consts.v"

class Fail(Exception):
    pass

def read(rel):
    with open(os.path.join(REPO, rel)) as f:
        return f.read()

def strip_tests(src):
    i = src.find("#[cfg(test)]\nmod tests")
    return src if i < 0 else src[:i]

ITEM = re.compile(r'^\s*(?:pub(?:\s*\([a-z]+\))?\s+)?(?:const|static)\s+([A-Z][A-Z0-9_]*)\s*:\s*([A-Za-z0-9_\[\];\s]+?)\s*=\s*(.*?);', re.M | re.S)

def eval_expr(expr, env):
    e = re.sub(r'//.*', '', expr)
    e = re.sub(r'\bas\s+(u8|u16|u32|u64|usize|isize|i64|f64)\b', '', e)
    e = re.sub(r'\b(?:crate::)?(?:frame::serial::|frame::|packet_id::|super::)', '', e)
    e = re.sub(r'(\d)_(\d)', r'\1\2', e)
    e = e.replace('/', '//')
    if not re.fullmatch(r'[\sA-Z0-9_a-fx+\-*/()<>]*', e):
        raise Fail("unsupported constant expression: %r" % expr)
    try:
        v = eval(e, {"__builtins__": {}}, dict(env))
    except Exception as ex:
        raise Fail("cannot evaluate %r: %s" % (expr, ex))
    if not isinstance(v, int) or v < 0:
        raise Fail("non-natural constant %r = %r" % (expr, v))
    return v

def consts_of(rel, wanted, env, prefix=""):
    src = strip_tests(read(rel))
    found = {}
    for m in ITEM.finditer(src):
        name, ty, rhs = m.group(1), m.group(2), m.group(3)
        if name in wanted and name not in found:
            if '[' in ty:
                continue
            found[name] = eval_expr(rhs, {**env, **found})
    missing = [w for w in wanted if w not in found]
    if missing:
        raise Fail("%s: constants not found: %s" % (rel, missing))
    return {prefix + k: v for k, v in found.items()}, found

def default_fields(rel, struct, fields):
    src = read(rel)
    m = re.search(r'impl\s+Default\s+for\s+%s\s*\{.*?Self\s*\{(.*?)\}\s*\}\s*\}' % struct, src, re.S)
    if not m:
        raise Fail("%s: Default impl of %s not found" % (rel, struct))
    body = m.group(1)
    out = {}
    for f in fields:
        mm = re.search(r'\b%s\s*:\s*([^,\n}]+)' % f, body)
        if not mm:
            raise Fail("%s: default of %s.%s not found" % (rel, struct, f))
        v = mm.group(1).strip()
        if v in ("true", "false"):
            out[f] = 1 if v == "true" else 0
        else:
            out[f] = eval_expr(v, {})
    return out

def main():
    env = {}
    defs = []   # (name, value, comment)
    def add(d, comment):
        for k, v in d.items():
            defs.append((k, v, comment))

    # frame/serial/mod.rs needs MAX_FRAME_SIZE from lib.rs, which needs serial's overheads:
    lib_src = strip_tests(read("src/lib.rs"))
    ser_names1 = ["FRAME_HEADER_SIZE", "FRAME_CRC_SIZE", "FRAME_OVERHEAD",
                  "HANDSHAKE_SYN_FRAME_ID", "HANDSHAKE_SYN_ACK_FRAME_ID", "HANDSHAKE_ACK_FRAME_ID",
                  "HANDSHAKE_ERROR_FRAME_ID", "DISCONNECT_FRAME_ID", "DISCONNECT_ACK_FRAME_ID",
                  "DATA_FRAME_ID", "SYNC_FRAME_ID", "ACK_FRAME_ID",
                  "HANDSHAKE_SYN_ACK_FRAME_PAYLOAD_SIZE", "HANDSHAKE_ACK_FRAME_PAYLOAD_SIZE",
                  "HANDSHAKE_ERROR_FRAME_PAYLOAD_SIZE", "DISCONNECT_FRAME_PAYLOAD_SIZE",
                  "DISCONNECT_ACK_FRAME_PAYLOAD_SIZE",
                  "DATAGRAM_HEADER_SIZE_MICRO", "DATAGRAM_HEADER_SIZE_SMALL", "DATAGRAM_HEADER_SIZE_LARGE",
                  "DATAGRAM_HEADER_SIZE_MIN", "MAX_DATAGRAM_OVERHEAD",
                  "DATA_FRAME_PAYLOAD_HEADER_SIZE", "DATA_FRAME_OVERHEAD", "DATA_FRAME_MAX_DATAGRAM_COUNT",
                  "SYNC_FRAME_PAYLOAD_SIZE", "ACK_GROUP_SIZE", "ACK_FRAME_PAYLOAD_HEADER_SIZE",
                  "MAX_CHANNELS", "MAX_FRAGMENTS"]
    d, raw = consts_of("src/frame/serial/mod.rs", ser_names1, env)
    env.update(raw); add(d, "src/frame/serial/mod.rs")
    lib_names = ["PROTOCOL_VERSION", "MAX_FRAME_WINDOW_SIZE", "MAX_PACKET_WINDOW_SIZE", "INTERNET_MTU",
                 "UDP_HEADER_SIZE", "MAX_FRAME_SIZE", "MAX_FRAGMENT_SIZE", "MAX_PACKET_SIZE", "CHANNEL_COUNT"]
    d, raw = consts_of("src/lib.rs", lib_names, env)
    env.update(raw); add(d, "src/lib.rs")
    d, raw = consts_of("src/frame/serial/mod.rs", ["HANDSHAKE_SYN_FRAME_PAYLOAD_SIZE"], env)
    env.update(raw); add(d, "src/frame/serial/mod.rs")

    d, raw = consts_of("src/packet_id.rs", ["MASK", "SPAN"], env, prefix="PACKET_ID_")
    add(d, "src/packet_id.rs")
    d, raw = consts_of("src/half_connection/mod.rs",
                       ["INITIAL_RTT_ESTIMATE_MS", "INITIAL_RTO_ESTIMATE_MS", "MIN_SYNC_TIMEOUT_MS", "MAX_SEND_COUNT"], env)
    add(d, "src/half_connection/mod.rs")
    env2 = dict(env)
    d, raw = consts_of("src/half_connection/send_rate.rs", ["MSS", "INITIAL_TCP_WINDOW", "MINIMUM_RATE"], env2)
    add(d, "src/half_connection/send_rate.rs")
    d, raw = consts_of("src/half_connection/frame_queue.rs", ["INITIAL_RTT_MS"], env, prefix="FEEDBACK_")
    add(d, "src/half_connection/frame_queue.rs")
    for who in ("client", "server"):
        d, raw = consts_of("src/%s/mod.rs" % who,
                           ["HANDSHAKE_RESEND_INTERVAL_MS", "HANDSHAKE_RESEND_COUNT",
                            "DISCONNECT_RESEND_INTERVAL_MS", "DISCONNECT_RESEND_COUNT", "CLOSED_TIMEOUT_MS"],
                           env, prefix=who.upper() + "_")
        add(d, "src/%s/mod.rs" % who)

    # literals that are not named items
    sr = strip_tests(read("src/half_connection/send_rate.rs"))
    m = re.search(r'self\.nofeedback_exp_ms\s*=\s*Some\(now_ms\s*\+\s*(\d+)\)', sr)
    if not m: raise Fail("send_rate.rs: initial no-feedback timer literal not found")
    defs.append(("INITIAL_NOFEEDBACK_MS", int(m.group(1)), "src/half_connection/send_rate.rs (notify_frame_sent)"))

    ec = default_fields("src/lib.rs", "EndpointConfig",
                        ["max_send_rate", "max_receive_rate", "max_packet_size", "max_receive_alloc",
                         "keepalive", "keepalive_interval_ms", "active_timeout_ms"])
    for k, v in ec.items():
        defs.append(("DEFAULT_" + k.upper(), v, "src/lib.rs EndpointConfig::default"))
    sc = default_fields("src/server/mod.rs", "Config", ["max_total_connections", "max_active_connections"])
    for k, v in sc.items():
        defs.append(("SERVER_DEFAULT_" + k.upper(), v, "src/server/mod.rs Config::default"))

    # CRC
    crc = strip_tests(read("src/frame/serial/crc.rs"))
    m = re.search(r'static\s+INITIAL_CRC\s*:\s*u32\s*=\s*(\w+)\s*;', crc)
    if not m: raise Fail("crc.rs: INITIAL_CRC not found")
    initial_crc = int(m.group(1), 0)
    m = re.search(r'static\s+PARTIAL_RESULTS\s*:\s*\[u32;\s*256\]\s*=\s*\[(.*?)\];', crc, re.S)
    if not m: raise Fail("crc.rs: PARTIAL_RESULTS not found")
    words = [int(w, 16) for w in re.findall(r'0x[0-9A-Fa-f]+', m.group(1))]
    if len(words) != 256: raise Fail("crc.rs: PARTIAL_RESULTS has %d words" % len(words))
    m = re.search(r'\(reg >> 1\) \^ (0x[0-9A-Fa-f]+)', read("src/frame/serial/crc.rs"))
    if not m: raise Fail("crc.rs: polynomial constant of extend_slow not found")
    poly = int(m.group(1), 16)

    # float constants (kept as decimal literals; Coq parses them to the nearest binary64 like rustc)
    m = re.search(r'const\s+RTT_ALPHA\s*:\s*f64\s*=\s*([0-9.]+)\s*;', sr)
    if not m: raise Fail("send_rate.rs: RTT_ALPHA not found")
    rtt_alpha = m.group(1)
    lr = strip_tests(read("src/half_connection/loss_rate.rs"))
    m = re.search(r'const\s+WEIGHTS\s*:\s*\[f64;\s*8\]\s*=\s*\[(.*?)\];', lr)
    if not m: raise Fail("loss_rate.rs: WEIGHTS not found")
    weights = [w.strip() for w in m.group(1).split(',') if w.strip()]
    if len(weights) != 8: raise Fail("loss_rate.rs: WEIGHTS has %d entries" % len(weights))

    lines = []
    lines.append("(* GENERATED by tools/extract_consts.py from %s/src -- do not edit. *)" % REPO)
    lines.append("From Coq Require Import NArith List Floats.")
    lines.append("Import ListNotations.")
    lines.append("Local Open Scope N_scope.")
    lines.append("")
    seen = set()
    for name, v, c in defs:
        if name in seen:
            raise Fail("duplicate constant " + name)
        seen.add(name)
        lines.append("Definition %s : N := %d. (* %s *)" % (name, v, c))
    lines.append("")
    lines.append("Definition CRC_INITIAL : N := %d." % initial_crc)
    lines.append("Definition CRC_POLY_REFLECTED : N := %d. (* 0x%08X *)" % (poly, poly))
    lines.append("Definition CRC_TABLE : list N := [")
    for i in range(0, 256, 8):
        lines.append("  " + "; ".join(str(w) for w in words[i:i+8]) + (";" if i + 8 < 256 else ""))
    lines.append("].")
    lines.append("")
    lines.append("Definition RTT_ALPHA : float := %s%%float." % rtt_alpha)
    lines.append("Definition LOSS_WEIGHTS : list float := [%s]." % "; ".join("%s%%float" % w for w in weights))
    txt = "\n".join(lines) + "\n"
    os.makedirs(os.path.dirname(OUT), exist_ok=True)
    old = None
    if os.path.exists(OUT):
        old = open(OUT).read()
    if old != txt:
        open(OUT, "w").write(txt)
    print("extract_consts: %d constants, 256 CRC words -> %s%s" % (len(defs), OUT, "" if old != txt else " (unchanged)"))

if __name__ == "__main__":
    try:
        main()
    except Fail as e:
        print("extract_consts: FAILED: %s" % e)
        sys.exit(2)
