"""Boundary-biased generators of frame specs (textual format shared by harness and driver)."""

U32 = 2**32
EDGE32 = [0, 1, 2, 255, 256, 65535, 65536, 2**20 - 1, 2**20, 2**31 - 1, 2**31, U32 - 2, U32 - 1]
EDGE16 = [0, 1, 63, 64, 127, 128, 255, 256, 1447, 1448, 65534, 65535]


def u32(r):
    return r.choice(EDGE32) if r.random() < 0.3 else r.randrange(U32)


def u16(r):
    return r.choice(EDGE16) if r.random() < 0.4 else r.randrange(65536)


def hexbytes(r, n):
    if n == 0:
        return "-"
    if r.random() < 0.2:
        return ("%02x" % r.randrange(256)) * n
    return "".join("%02x" % r.randrange(256) for _ in range(n))


def datagram(r, max_len=1448, seq=None):
    """A representable datagram, biased to the micro/small/large thresholds."""
    kind = r.choice(["micro", "micro_edge", "small", "small_edge", "large", "frag"])
    seqv = seq if seq is not None else (r.choice([0, 1, 2**20 - 1, 2**20 - 2, 0xF0F0F, 0x0F0F0]) if r.random() < 0.3 else r.randrange(2**20))
    chan = r.choice([0, 15, 16, 31, 32, 47, 48, 63]) if r.random() < 0.5 else r.randrange(64)
    if kind == "micro":
        n, wpl, cpl, fid, fl = r.randrange(0, 64), r.randrange(128), r.randrange(256), 0, 0
    elif kind == "micro_edge":
        n = r.choice([0, 1, 62, 63, 64])
        wpl = r.choice([0, 126, 127, 128])
        cpl = r.choice([0, 254, 255, 256])
        fid, fl = 0, 0
    elif kind == "small":
        n, wpl, cpl, fid, fl = r.randrange(0, 256), u16(r), u16(r), 0, 0
    elif kind == "small_edge":
        n, wpl, cpl, fid, fl = r.choice([64, 254, 255, 256, 257]), u16(r), u16(r), 0, 0
    elif kind == "large":
        n, wpl, cpl, fid, fl = r.choice([256, 300, 1000, 1447, 1448]), u16(r), u16(r), 0, 0
    else:
        fl = r.choice([1, 2, 255, 256, 65535]) if r.random() < 0.5 else r.randrange(1, 65536)
        fid = r.choice([0, fl]) if r.random() < 0.5 else r.randrange(0, fl + 1)
        n = 1448 if fid < fl and r.random() < 0.8 else r.choice([0, 1, 63, 64, 255, 256, 1447, 1448])
        wpl, cpl = u16(r), u16(r)
    n = min(n, max_len)
    return (seqv, chan, wpl, cpl, fid, fl, n)


def dg_size(d):
    seqv, chan, wpl, cpl, fid, fl, n = d
    if fl == 0:
        if n < 64 and wpl < 128 and cpl < 256:
            return 6 + n
        if n < 256:
            return 9 + n
    return 14 + n


def dg_spec(r, d):
    seqv, chan, wpl, cpl, fid, fl, n = d
    return "%d %d %d %d %d %d %s" % (seqv, chan, wpl, cpl, fid, fl, hexbytes(r, n))


def data_frame(r, max_size=1472):
    """data frame spec fitting max_size bytes (representable)."""
    budget = max_size - 10
    dgs = []
    target = r.choice([0, 1, 2, 3, 5, 20, 126, 127])
    while len(dgs) < min(target, 127):
        d = datagram(r, max_len=min(1448, max(0, budget - 14)))
        sz = dg_size(d)
        if sz > budget:
            break
        budget -= sz
        dgs.append(d)
    s = "data %d %d %d" % (u32(r), r.randrange(2), len(dgs))
    for d in dgs:
        s += " " + dg_spec(r, d)
    return s


def ack_frame(r, max_groups=None):
    n = r.choice([0, 1, 2, 3, 10, 100, 161, 162]) if max_groups is None else r.randrange(max_groups + 1)
    s = "acks %d %d %d" % (u32(r), u32(r), n)
    for _ in range(n):
        s += " %d %d %d" % (u32(r), u32(r), r.randrange(2))
    return s


def frame_spec(r):
    k = r.randrange(12)
    if k == 0:
        return "syn %d %d %d %d %d" % (r.choice([0, 2, 3, 4, 255]) if r.random() < 0.5 else r.randrange(256), u32(r), u32(r), u32(r), u32(r))
    if k == 1:
        return "synack %d %d %d %d %d" % (u32(r), u32(r), u32(r), u32(r), u32(r))
    if k == 2:
        return "hsack %d" % u32(r)
    if k == 3:
        return "hserr %d %d" % (u32(r), r.randrange(3))
    if k == 4:
        return "disc"
    if k == 5:
        return "discack"
    if k in (6, 7, 8):
        return data_frame(r)
    if k == 9:
        opt = lambda: "-" if r.random() < 0.3 else str(u32(r))
        return "sync %s %s" % (opt(), opt())
    return ack_frame(r)
