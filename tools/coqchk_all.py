#!/usr/bin/env python3
"""Runs coqchk -o ONCE over every module any property file depends on (not the props/Cxx.v files, not the CRC shard
files — see DESIGN.md §9), without a time limit, prints its report, and on success records the verdict in the
coqchk cache of every property whose dependency closure is unchanged (so that the thorough tier can reuse it).
Takes about a quarter of an hour (877-977 s measured) on this development; coqchk has no bytecode VM, which is why the props files with their vm_compute examples and the CRC shard files are left out."""
import os, sys, json, hashlib, importlib, subprocess, time
HERE = os.path.dirname(os.path.abspath(__file__))
sys.path.insert(0, HERE)
import vlib
ids = ["C%02d" % i for i in range(1, 21)]
targets, admit, keys = [], set(), {}
for pid in ids:
    mod = importlib.import_module("props." + pid)
    deps = vlib.coq_dep_closure(mod.COQ_FILE)
    h = hashlib.sha256()
    for d in sorted(deps):
        h.update(d.encode()); h.update(open(os.path.join(vlib.COQ, d), "rb").read())
    keys[pid] = h.hexdigest()
    admit |= set(getattr(mod, "COQCHK_ADMIT", []))
    for d in deps:
        t = "UF." + os.path.basename(d)[:-2]
        if d != mod.COQ_FILE and t not in targets:
            targets.append(t)
targets = [t for t in targets if t not in admit]
cmd = ["coqchk", "-silent", "-o"] + sum([["-Q", os.path.join(vlib.COQ, d), "UF"] for d in ("gen", "model", "proofs", "props", "crc_hd")], [])
cmd += sum([["-admit", m] for m in sorted(admit)], []) + targets
t0 = time.time()
p = subprocess.run(cmd, cwd=vlib.COQ, text=True, stdout=subprocess.PIPE, stderr=subprocess.STDOUT)
print(p.stdout[-4000:])
print("coqchk exit %d after %d s over %d modules (%d admitted)" % (p.returncode, time.time() - t0, len(targets), len(admit)))
if p.returncode == 0:
    path = os.path.join(vlib.WORK, "coqchk_cache.json")
    try:
        cache = json.load(open(path))
    except Exception:
        cache = {}
    for pid, k in keys.items():
        cache[k] = "(whole-development run of tools/coqchk_all.py) " + p.stdout[-1200:]
    json.dump(cache, open(path, "w"))
sys.exit(p.returncode)
