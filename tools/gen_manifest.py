#!/usr/bin/env python3
"""Writes MANIFEST.json from the table below (kept in one place so it stays valid)."""
import json, os
V = os.path.dirname(os.path.dirname(os.path.abspath(__file__)))
props = [json.loads(l) for l in open(os.path.join(V, "properties.jsonl"))]
ids = [p["id"] for p in props]

TRUST = "Trusted: Coq 8.16.1 kernel (vm_compute; no native_compute), tools/extract_consts.py, extraction (ExtrOcamlBasic, ExtrOCamlFloats, ExtrOCamlInt63) + OCaml driver, Rust harness + cfg(uflow_verif) hooks. The Gallina model is hand-written; its agreement with the code is tested on every run (differential streams), not proved."

CLAIMED = {
 "C16": dict(
   text="Coq theorems over a byte-for-byte Gallina transcription of the frame codec: round trip for every representable frame (C16_roundtrip), totality of the reader on every byte string (C16_read_total), and rejection of every CRC-carrying byte string of at most 1472 bytes altered in 1..4 bit positions (C16_crc_hd: linear-algebra reduction to powers of the CRC bit step plus an exhaustive search over all 1..4-bit patterns on 11776 bits evaluated by the kernel's vm_compute in 32 parallel files); the model is tied to the source by regenerated constants/CRC table and by a differential codec stream (write/read/flip/mutate) against the real Frame::read/write.",
   note=TRUST,
   technique="Coq proof (induction over datagram/ack lists, lia over div/mod; certified exhaustive computation for the CRC distance) + model/implementation differential run",
   design="DESIGN.md §5 C16"),
 "C20": dict(
   text="Coq invariant proved by induction over ALL sequences of PacketSender operations (send, emit with any flush id, acknowledge with any id, fragment acks): total_size = queued bytes + window bytes, zero when both are empty, the release loop never leaves the window. HalfConnection::send_buffer_size() is that counter, and the same is proved for the HalfConnection itself over ALL sequences of send/receive/step/flush/frame operations (C20_half_connection_exact). Model tied to the code by the pair/tx/hostile streams (counter compared after every operation, debug+release).",
   note=TRUST,
   technique="Coq proof (invariant by induction over operation lists) + differential run",
   design="DESIGN.md §5 C20"),
 "C06": dict(
   text="Coq invariants by induction over ALL operation sequences: receiver allocation counter = sum of per-slot allocations <= limit rounded to a fragment for every (hostile) datagram / receive / resync stream; sender: fragment-rounded outstanding bytes <= peer limit and <= window-size packets outstanding for every send/ack history; both lifted to the HalfConnection over ALL sequences of send/receive/step/flush/frame operations (the receiver inside a half-connection provably only performs the receiver's own operations: hc_rcv_projection). Tied to the code by hostile/pair/tx streams comparing both counters, window spans and the ack-queue length after every operation.",
   note=TRUST + " Real heap bytes (allocator overhead) are not modelled; the bound is on the library's own accounting, which the model proves equal to the sum of buffer capacities.",
   technique="Coq proof (invariant by induction over operation lists) + differential run",
   design="DESIGN.md §5 C06"),
 "C04": dict(
   text="Coq theorems: the fragments of any payload partition it with all but the last exactly 1448 bytes; a FragmentBuffer fed those fragments in ANY order with ANY repetition returns the payload; a later write to a filled index changes nothing; a full fragment fits one 1472-byte frame. Tied by pair/ideal/hostile streams with lengths around every multiple of 1448; frame sizes of the implementation checked by oracle.",
   note=TRUST + " The <=1472 bound for multi-datagram frames is checked on the implementation's frames, the emitter-level proof is not part of this property file.",
   technique="Coq proof (list induction, first-write-wins invariant) + differential run",
   design="DESIGN.md §5 C04"),
 "C15": dict(
   text="Coq theorems on FrameQueue::acknowledge_group over the whole frame-queue + sender state: an ack group naming a frame that is not logged, one with a wrong nonce parity, a dud, and a repeated copy whose claimed frames are already acknowledged all return the state unchanged; if anything changes, every id of the span was logged and the nonce reproduces the parity. Tied by twin/tx/hostile streams; twin-run oracle compares a sender that also sees duplicated and delayed genuine acks with one that does not.",
   note=TRUST + " The stale window-base fields of a replayed ack frame are covered by the twin-run oracle, not by a theorem.",
   technique="Coq proof (induction over the ack span) + differential run + twin-run oracle",
   design="DESIGN.md §5 C15"),
 "C14": dict(
   text="Coq theorems on the bit-exact (primitive float) model of SendRateComp/RecvRateSet for ALL operation sequences and feedback values: X <= ceiling in every reachable state; throughput-equation phase: X <= max(X_Bps(rtt,p), s/64); slow start: at most doubling or the initial window per RTT; no-feedback expiry never increases X beyond the floor and keeps it or leaves it >= s/64; RTT estimate = 0.9/0.1 EWMA; step() total. Tied by the rate stream (X, mode, RTT bits, RTO, deadline, X_recv_set after every step, debug+release); oracle recomputes the equation independently.",
   note=TRUST + " Float-valued terms are opaque in the proofs (bounds hold for all their values); that binary64 evaluation is close to the real-valued RFC formula is not proved.",
   technique="Coq proof (state invariant over all op sequences, lia over min/max) + bit-exact differential run",
   design="DESIGN.md §5 C14"),
}

PARTIAL = {
 "C12": ("Coq theorems on the model: DataFrameEmitter::push records a fragment reference in exactly the frame that carries its datagram iff the fragment is to be retransmitted, a refused push leaves it in no frame, finalize logs exactly the recorded references (EmitRefs.v); Coq theorems on the sender-side mechanisms for ALL states: a packet leaves the send queue with the next id, never as a stale TimeSensitive packet, flagged for retransmission exactly when Persistent/Reliable; pending entries inherit the flag; an acknowledged fragment is marked and a marked fragment or one whose packet the peer moved past is dropped from the resend queue without transmission; and over ALL sequences of HalfConnection operations (C12_retransmission_kept): a fragment scheduled for (re)transmission stays scheduled until it is acknowledged or its packet is released from the window — flush only removes dead entries and re-queues every entry it transmits. The counts over emitted frames (at most once; nothing after ack/skip; TimeSensitive staleness; retransmission until acknowledged) are decided on the implementation's decoded frames by the transmission and stall oracles and through the model correspondence: PARTIAL.", "DESIGN.md §5 C12"),
 "C13": ("Coq theorems: X <= ceiling in every reachable controller state; data, ack and sync frames are only started with credit >= 0; step() caps the credit at round(X*rtt); frame length formula; and for a whole flush() of the HalfConnection (ack, data and sync frames through all emit loops): credit' = credit - bytes emitted exactly, nothing is emitted on a negative credit, all frames but the last fit in the credit (C13_flush_charges_every_byte / C13_flush_within_credit). The real-valued interval bound ceiling*(interval+rtt)+1472 is checked with the virtual clock on the implementation's frames by the wire-rate oracle, not derived through binary64 arithmetic: PARTIAL.", "DESIGN.md §5 C13"),
 "C01": ("Coq theorem over ALL histories of the receiver (ReceiverOrder.v): for any sequence of datagrams with arbitrary contents, receive() calls and resynchronisation requests, every packet handed to the application carries a (channel, absolute packet id) tag with strictly increasing ids per channel - nothing twice, nothing out of order on a channel, across wrap-around of the 20-bit ids and of the slot arrays (window sizes dividing 2^20, at most 2^19); and every packet handed out is a production of the assembly window for exactly that channel and id, with the data the assembly returned (ReceiverData.v). Plus component theorems for ALL inputs: consecutive sender ids carrying the submitted bytes/channel, a frame id accepted once is outside the receive window, one packet per slot generation, exact codec round trip, exact fragmentation and any-order reassembly. Their composition into the network-level per-channel subsequence theorem (window agreement of 20-bit ids under bounded staleness) is NOT proved; the end-to-end statement is decided on the implementation by pair/ideal/live/reuse streams (loss, dup, reorder, wrap-around, windows 2..4096) with unique payloads and the subsequence oracle: PARTIAL.", "DESIGN.md §5 C01"),
 "C02": ("Coq theorems: the receive window only advances over slots without undelivered data (a stored Reliable packet is never skipped by the receiver), sync frames are due whenever something is unacknowledged, the rate floor holds on expiry, flush() always terminates (C03), and a Reliable fragment once scheduled stays scheduled through every operation sequence until acknowledged or released (C02_retransmission_kept). End-to-end ordering w.r.t. submission order and bounded-time delivery are decided by the reliable-order and stall oracles on faulty / blackout / long loss-free streams: PARTIAL.", "DESIGN.md §5 C02"),
 "C05": ("Coq theorems: sender ids follow submission order, only stale TimeSensitive packets are dropped at the sender, payload partition. The end-to-end equality of delivered and submitted sequences on an ideal network is decided by the ideal stream with global-order and completion oracles: PARTIAL.", "DESIGN.md §5 C05"),
 "C11": ("Coq theorems on the recovery mechanisms: sync frames due, frame-window resynchronisation accepts any point within a window, rate floor on expiry, acknowledgements release window space. End-to-end recovery after blackouts is decided by the blackout/live streams with the stall oracle: PARTIAL.", "DESIGN.md §5 C11"),
 "C03": ("Coq theorems for ALL inputs and histories: every panic site and every loop contained in the model is unreachable / bounded — the frame reader on any byte string; the HalfConnection (C03_half_connection_total: by an invariant over frame log, transfer window, reorder buffer, send window, rate controller and loss intervals, every send/receive/step/flush/frame operation from every reachable state returns normally, flush terminating by a potential argument); the Client (C03_client_total) and the Server (C03_server_total, timer loop bounded by counting due entries through the binary heap) for every history of steps with any byte datagrams from any addresses, any clock values and nonces, and any application calls. Outside the model (decided by the streams, debug AND release builds with hang watchdog): debug-build overflow checks where the model computes in unbounded integers, allocation failure, socket calls, and the model/code agreement itself.", "DESIGN.md §5 C03"),
}
for k, (text, ref) in PARTIAL.items():
    tech = "Coq proof of the component theorems + model/implementation differential run + property oracle on the implementation (partial)"
    if k == "C03":
        tech = "Coq proof (reachable-state invariants by induction over operation lists for HalfConnection, Client and Server; loop termination by potential / counting arguments) + model/implementation differential run in debug and release builds"
    CLAIMED[k] = dict(text=text, note=TRUST, technique=tech, design=ref)

EP = {
 "C17": ("Coq invariant by induction over ALL server operation sequences (steps with any datagrams from any addresses and any clock, flush, drop, send, disconnect): tracked addresses <= max_total_connections and the active list (every established connection) <= max_active_connections; a SYN is refused with ServerFull exactly when a limit is reached; promotion only while there is room. Tied by limits/lifecycle/forge streams over real UDP sockets with the virtual clock.", "DESIGN.md §5 C17"),
 "C18": ("Coq theorems: only a datagram of exactly 1472 bytes parses as a connection request; replies are 25 / 10 bytes and (10+1)*25 < 1472 (re-checked against the regenerated constants); untracked and pending addresses get no output for any other frame; the pending timer sends the stored reply once per expiry with a decreasing budget; and the summation over WHOLE histories (C18_no_amplification): for every history of server steps (any datagrams from any addresses, any clock values), flushes and application calls, and every address A without a Connect event, 1472 * bytes sent to A <= 275 * bytes received from A, by a potential argument through the timer heap. The same is checked on the implementation by the byte-count oracle (amplify/forge/limits streams incl. CRC-correct undersized requests).", "DESIGN.md §5 C18"),
 "C07": ("Coq theorems per handler for ALL states and frames: server/client Connect soundness (nonce echo while pending), forged / stale / duplicated handshake frames are the identity (an ACK or SYN+ACK reaching an established connection only moves its deadline), refusals carry the matching error and echo the SYN's nonce, both sides derive sequence numbers and limits symmetrically; and over WHOLE histories of the Client and Server models: Connect is reported only in a step whose datagrams include the SYN+ACK echoing the client's nonce, resp. — from that very address — an ACK carrying a nonce the server has sent to it in a SYN+ACK (C07_client_connect_history, C07_server_connect_history). Tied by forge/lifecycle/limits streams (raw peers forging every frame with chosen nonces at any point). Nonce guessing is outside the logic.", "DESIGN.md §5 C07"),
 "C08": ("Coq theorem over ALL client operation sequences: the whole event log is accepted by the automaton Connect? Receive* (Disconnect|Error)? with nothing after the end (induction over steps, per-handler grammar lemmas); and over ALL server operation sequences (C08_server_event_stream_wellformed): for every address the events about it, with the application's drop calls interleaved, are accepted by Idle -Connect-> Conn -Receive*-> Conn -Disconnect|Error|drop-> Idle (invariant over the address table and object states). The same grammar is checked on the implementation by the grammar oracle on lifecycle/forge/limits streams.", "DESIGN.md §5 C08"),
 "C09": ("Coq theorems: a flushing disconnect only becomes a disconnect request when send queue, pending queue and resend queue are empty; the receiving side delivers everything it holds before reporting Disconnect; retry budget constants (11 x 2 s = 22 s). End-to-end ordering and the time bound are decided by the flush-order oracle on the lifecycle stream and by correspondence under the virtual clock: PARTIAL.", "DESIGN.md §5 C09"),
 "C10": ("Coq theorems on the client model over whole histories (TimeoutHistory.v; any datagrams, any non-decreasing clock, flushes, sends, disconnect calls): Error(Timeout) from the handshake no earlier than 22 s after connect() and after exactly ten resends; from an established connection only if every step that brought a data/sync/ack frame and the Connect step lie at least active_timeout_ms back, the deadline being exactly active_timeout_ms after a step with a frame from the server and a silent step at or past it reporting the timeout; while disconnecting no earlier than 22 s after the step that first sent Disconnect; in no other phase. Plus the exact per-step timer semantics. Server over whole histories (ServerTimeouts.v): handshake and disconnect attempts are given up no earlier than 22 s after they began and never while resends are left (invariant on the timer heap with ghost start times). The server's active-timeout rule and keepalive sufficiency over histories are decided by the timers/lifecycle streams with the timeout oracles and by correspondence: PARTIAL.", "DESIGN.md §5 C10"),
}
for k, (text, ref) in EP.items():
    CLAIMED[k] = dict(text=text, note=TRUST + " Endpoints are driven over real loopback UDP sockets; socket errors are not modelled (the code ignores them).", technique="Coq proof (invariants / per-handler theorems on the Client and Server models) + model/implementation differential run over real sockets + property oracle", design=ref)

CLAIMED["C19"] = dict(
   text="Coq theorem on the allocator-call ledger of the reassembly buffer (the only place where the library managed a block by hand): for every fragment count and total size the ledger of the current code is balanced (each block released exactly once with the layout it has), and the pre-repair code was unbalanced for every size that is not a multiple of the fragment size. The pairing of allocations in safe Rust / std is the compiler's guarantee and is OBSERVED only: the harness runs the streams under a checking global allocator (layout recorded at alloc and compared at dealloc; live bytes compared after every teardown) and the check fails when the inventory of `unsafe` items changes: PARTIAL.",
   note=TRUST + " Safe Rust's allocation pairing and std are trusted.",
   technique="Coq proof (allocator ledger of FragmentBuffer) + checking global allocator in the harness + unsafe inventory (partial)",
   design="DESIGN.md §5 C19")

NOT_YET = "not yet covered by the Coq development in this revision (model/theorem under construction); see DESIGN.md"

checks = []
for pid in ids:
    if pid in CLAIMED:
        c = CLAIMED[pid]
        checks.append({
            "property_id": pid,
            "quick_cmd": "./check %s --tier quick" % pid,
            "thorough_cmd": "./check %s --tier thorough" % pid,
            "evidence_file": "/verif/evidence/%s.json" % pid,
            "replay_cmd_template": "./check %s --replay {path}" % pid,
            "engine": "coq+correspondence",
            "level_claimed": {"category": "proof", "text": c["text"], "design_ref": c["design"]},
            "level_note": c["note"],
            "technique": c["technique"],
        })
manifest = {
    "version": 1,
    "setup_cmd": "./check --setup",
    "hooks": {
        "guard": "uflow_verif",
        "enable": "RUSTFLAGS=\"--cfg uflow_verif\" (set by /verif/check when it builds /verif/harness against /repo)",
        "baseline_off_cmd": "cd /repo && cargo test --workspace --no-fail-fast --offline",
        "source_commits": ["1b71bfd", "a7a94db", "4f80d74", "e564135", "994842b"],
        "add_only": True,
    },
    "engines": [{
        "name": "coq+correspondence",
        "path": "/verif/check",
        "serves_properties": sorted(CLAIMED),
        "kind_free_text": "Coq 8.16.1 proofs over a hand-written Gallina model (coq/), constants regenerated from the source (tools/extract_consts.py), model extracted to OCaml (driver/) and run against the real code (harness/) on generated scripts",
    }],
    "checks": checks,
    "not_applicable": [{"property_id": pid, "reason": NOT_YET} for pid in ids if pid not in CLAIMED],
    "notes": "See DESIGN.md. A broken proof or correspondence is reported as VIOLATION; when no concrete failing input is found the line ends with no-failing-input-found.",
}
json.dump(manifest, open(os.path.join(V, "MANIFEST.json"), "w"), indent=1)
print("MANIFEST.json: %d checks, %d not_applicable" % (len(checks), len(manifest["not_applicable"])))
