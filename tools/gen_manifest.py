#!/usr/bin/env python3
"""Writes MANIFEST.json from the table below (kept in one place so it stays valid)."""
import json, os
V = os.path.dirname(os.path.dirname(os.path.abspath(__file__)))
props = [json.loads(l) for l in open(os.path.join(V, "properties.jsonl"))]
ids = [p["id"] for p in props]

CLAIMED = {
 "C16": dict(
   text="Coq theorems over a byte-for-byte Gallina transcription of the frame codec: round trip for every representable frame (C16_roundtrip), totality of the reader on every byte string (C16_read_total); the model is tied to the source by regenerated constants/CRC table and by a differential codec stream (write/read/flip/mutate) against the real Frame::read/write.",
   note="Trusted: Coq kernel, tools/extract_consts.py, extraction (ExtrOcamlBasic) + OCaml driver, Rust harness + cfg hooks. The codec model is hand-written; its agreement with the code is tested, not proved.",
   technique="Coq proof (induction over datagram/ack lists, lia over div/mod) + model/implementation differential run",
   design="DESIGN.md §5 C16"),
}

NOT_YET = "not yet covered by the Coq development in this revision (model/theorem under construction); see DESIGN.md"

checks = []
for pid in ids:
    if pid in CLAIMED:
        c = CLAIMED[pid]
        checks.append({
            "property_id": pid,
            "quick_cmd": "./check %s --tier quick" % pid,
            "thorough_cmd": "./check %s --tier thorough" % pid,
            "evidence_file": "/verif/evidence/%s.json" % pid,
            "replay_cmd_template": "./check %s --replay {path}" % pid,
            "engine": "coq+correspondence",
            "level_claimed": {"category": "proof", "text": c["text"], "design_ref": c["design"]},
            "level_note": c["note"],
            "technique": c["technique"],
        })
manifest = {
    "version": 1,
    "setup_cmd": "./check --setup",
    "hooks": {
        "guard": "uflow_verif",
        "enable": "RUSTFLAGS=\"--cfg uflow_verif\" (set by /verif/check when it builds /verif/harness against /repo)",
        "baseline_off_cmd": "cd /repo && cargo test --workspace --no-fail-fast --offline",
        "source_commits": ["1b71bfd"],
        "add_only": True,
    },
    "engines": [{
        "name": "coq+correspondence",
        "path": "/verif/check",
        "serves_properties": sorted(CLAIMED),
        "kind_free_text": "Coq 8.16.1 proofs over a hand-written Gallina model (coq/), constants regenerated from the source (tools/extract_consts.py), model extracted to OCaml (driver/) and run against the real code (harness/) on generated scripts",
    }],
    "checks": checks,
    "not_applicable": [{"property_id": pid, "reason": NOT_YET} for pid in ids if pid not in CLAIMED],
    "notes": "See DESIGN.md. A broken proof or correspondence is reported as VIOLATION; when no concrete failing input is found the line ends with no-failing-input-found.",
}
json.dump(manifest, open(os.path.join(V, "MANIFEST.json"), "w"), indent=1)
print("MANIFEST.json: %d checks, %d not_applicable" % (len(checks), len(manifest["not_applicable"])))
