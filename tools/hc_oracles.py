"""Parsing of hc-mode observations and the executable property oracles that are applied to the
IMPLEMENTATION's observations (search for a failing input; never a substitute for the theorems)."""
import re, os

F = 1448
M20 = 2 ** 20
U32 = 2 ** 32
TERMINAL = ("st ", "new ", "skipped", "PANIC", "HANG", "HARNESS")

_ST = re.compile(
    r"st sbs=(?P<sbs>\d+) pend=(?P<pend>\d) \| now=(?P<now>\d+) rtt=(?P<rtt>\d+) rto=(?P<rto>\d+) credit=(?P<credit>-?\d+) "
    r"fid=(?P<fid>\d+) sr=(?P<sr>\d) stb=(?P<stb>\d+) pq=(?P<pq>\d+) rq=(?P<rq>\d+) \| snd q=(?P<sq>\d+) base=(?P<sbase>\d+) "
    r"next=(?P<snext>\d+) alloc=(?P<salloc>\d+) total=(?P<stotal>\d+) \| fq wbase=(?P<fwbase>\d+) next=(?P<fnext>\d+) "
    r"lbase=(?P<flbase>\d+) llen=(?P<fllen>\d+) rl=(?P<frl>\d) lf=(?P<lf>\S+) ad=(?P<ad>\S+) rb=(?P<rb>\S+) li=(?P<li>\S+) \| "
    r"rcv base=(?P<rbase>\d+) end=(?P<rend>\d+) alloc=(?P<ralloc>\d+) crf=(?P<crf>[0-9a-f]+) wrf=(?P<wrf>\d) held=(?P<held>\d+) cb=(?P<cb>\S+) cn=(?P<cn>\S+) mk=(?P<mk>\S+) ef=(?P<ef>\d+) df=(?P<df>\d+) \| "
    r"faq base=(?P<qbase>\d+) len=(?P<qlen>\d+) \| src X=(?P<X>\d+) max=(?P<max>\d+) mode=(?P<mode>\S+) plr=(?P<plr>\S+) "
    r"nfe=(?P<nfe>\S+) idle=(?P<idle>\d) rtts=(?P<rtts>\S+) rttms=(?P<rttms>\S+) rtoms=(?P<rtoms>\S+) rs=(?P<rs>\S+)")


def parse_st(line):
    m = _ST.match(line)
    if not m:
        return None
    d = m.groupdict()
    for k in ("sbs", "pend", "now", "rtt", "rto", "credit", "fid", "sq", "sbase", "snext", "salloc", "stotal", "fwbase",
              "fnext", "flbase", "fllen", "rbase", "rend", "ralloc", "held", "qbase", "qlen", "X", "max", "pq", "rq"):
        d[k] = int(d[k])
    return d


def events(ops, out):
    """Aligns script ops with observation lines: [(tokens, info_lines, terminal_line)]."""
    ev = []
    i = 0
    for op in ops:
        t = op.split()
        if not t or t[0] == "seed":
            continue
        info = []
        term = None
        while i < len(out):
            l = out[i]
            i += 1
            if l.startswith(TERMINAL):
                term = l
                break
            info.append(l)
        ev.append((t, info, term))
        if term is None:
            break
    return ev


def endpoint_of(t):
    if t[0] in ("deliver", "replayack"):
        return int(t[3])
    if t[0] == "relay":
        return int(t[2])
    return int(t[1])


def crash_oracle(ops, out):
    for l in out:
        if l.startswith(("PANIC", "HANG", "HARNESS")) or "PANIC" in l[:20]:
            return "endpoint crashed or hung: %s" % l[:80]
    return None


def ceilF(x):
    return (x + F - 1) // F * F


def cfg_of(ops):
    cfg = {}
    for op in ops:
        t = op.split()
        if t and t[0] == "hcnew":
            cfg[int(t[1])] = dict(txfb=int(t[2]), rxfb=int(t[3]), txfw=int(t[4]), rxfw=int(t[5]), txpb=int(t[6]), rxpb=int(t[7]),
                                  txpw=int(t[8]), rxpw=int(t[9]), bw=int(t[10]), txalloc=int(t[11]), rxalloc=int(t[12]))
    return cfg


# ---------------------------------------------------------------- delivery (C01, C02, C05)

def delivery_trace(ops, out):
    """submitted[e] = [(chan, mode, len, crc, op_index)], delivered[e] = [(len, crc, op_index)] (delivered AT e)."""
    sub = {0: [], 1: [], 2: [], 3: []}
    dele = {0: [], 1: [], 2: [], 3: []}
    last = {}
    ev = events(ops, out)
    for k, (t, info, term) in enumerate(ev):
        if t[0] == "send":
            for l in info:
                if l.startswith("sent "):
                    _, chan, mode, ln, crc = l.split()
                    sub[int(t[1])].append((int(chan), int(mode), int(ln), int(crc), k))
        elif t[0] == "recv":
            for l in info:
                if l.startswith("pkt "):
                    _, ln, crc = l.split()
                    dele[int(t[1])].append((int(ln), int(crc), k))
        if term and term.startswith("st "):
            st = parse_st(term)
            if st:
                last[endpoint_of(t)] = st
    return sub, dele, last, ev


def subsequence_oracle(ops, out, pairs=((0, 1), (1, 0))):
    """C01: per channel, delivered packets are a subsequence of the submitted ones (payloads are unique per case)."""
    sub, dele, last, ev = delivery_trace(ops, out)
    for src, dst in pairs:
        index = {}
        for i, (chan, mode, ln, crc, k) in enumerate(sub[src]):
            if (ln, crc) in index:
                return None  # generator failed to make payloads unique: no verdict
            index[(ln, crc)] = (i, chan, mode)
        last_idx = {}
        seen = set()
        for (ln, crc, k) in dele[dst]:
            if (ln, crc) not in index:
                return "endpoint %d delivered a packet (len %d, crc %d) that endpoint %d never submitted" % (dst, ln, crc, src)
            i, chan, mode = index[(ln, crc)]
            if i in seen:
                return "packet #%d of endpoint %d (channel %d) delivered twice at endpoint %d" % (i, src, chan, dst)
            seen.add(i)
            if chan in last_idx and i < last_idx[chan]:
                return "channel %d: packet #%d delivered after packet #%d (out of order)" % (chan, i, last_idx[chan])
            last_idx[chan] = i
    return None


def reliable_order_oracle(ops, out, pairs=((0, 1), (1, 0))):
    """C02 safety: a packet is delivered only after every earlier Reliable packet of its channel."""
    sub, dele, last, ev = delivery_trace(ops, out)
    for src, dst in pairs:
        index = {(ln, crc): (i, chan, mode) for i, (chan, mode, ln, crc, k) in enumerate(sub[src])}
        if len(index) != len(sub[src]):
            return None
        done = set()
        for (ln, crc, k) in dele[dst]:
            if (ln, crc) not in index:
                continue
            i, chan, mode = index[(ln, crc)]
            for j, (c2, m2, l2, crc2, k2) in enumerate(sub[src][:i]):
                if c2 == chan and m2 == 3 and j not in done:
                    return "channel %d: packet #%d delivered although earlier Reliable packet #%d was not" % (chan, i, j)
            done.add(i)
    return None


def completion_oracle(ops, out, pairs=((0, 1), (1, 0)), modes=(3,)):
    """C02/C05/C11 liveness on traces that end with a long fault-free phase: everything in `modes` was
    delivered and the senders report nothing pending and an empty send buffer."""
    sub, dele, last, ev = delivery_trace(ops, out)
    for src, dst in pairs:
        got = set((ln, crc) for (ln, crc, k) in dele[dst])
        for i, (chan, mode, ln, crc, k) in enumerate(sub[src]):
            if mode in modes and (ln, crc) not in got:
                return "packet #%d of endpoint %d (channel %d, mode %d, %d bytes) never delivered although the network became loss-free" % (i, src, chan, mode, ln)
        st = last.get(src)
        if st and (st["pend"] != 0 or st["sbs"] != 0):
            return "endpoint %d still reports pend=%d send_buffer_size=%d after the loss-free phase" % (src, st["pend"], st["sbs"])
    return None


def global_order_oracle(ops, out, pairs=((0, 1), (1, 0))):
    """C05: on an ideal network the receiver sees the submitted packets in submission order (all channels),
    only TimeSensitive packets may be missing."""
    sub, dele, last, ev = delivery_trace(ops, out)
    for src, dst in pairs:
        index = {(ln, crc): i for i, (chan, mode, ln, crc, k) in enumerate(sub[src])}
        if len(index) != len(sub[src]):
            return None
        prev = -1
        got = set()
        for (ln, crc, k) in dele[dst]:
            if (ln, crc) not in index:
                return "endpoint %d delivered an unknown packet" % dst
            i = index[(ln, crc)]
            if i <= prev:
                return "global order broken: packet #%d delivered after #%d" % (i, prev)
            prev = i
            got.add(i)
        for i, (chan, mode, ln, crc, k) in enumerate(sub[src]):
            if mode != 0 and i not in got:
                return "packet #%d (mode %d) of endpoint %d lost on an ideal network" % (i, mode, src)
    return None


# ---------------------------------------------------------------- memory / limits (C06), frames (C04), buffer (C20)

def bounds_oracle(ops, out):
    cfg = cfg_of(ops)
    for (t, info, term) in events(ops, out):
        if not term or not term.startswith("st "):
            continue
        st = parse_st(term)
        e = endpoint_of(t)
        c = cfg.get(e)
        if not st or not c:
            continue
        if st["ralloc"] > ceilF(c["rxalloc"]):
            return "endpoint %d holds %d bytes of receive allocation, limit %d" % (e, st["ralloc"], ceilF(c["rxalloc"]))
        if st["held"] > ceilF(c["rxalloc"]):
            return "endpoint %d holds %d bytes of received packet data (reassembly buffers + undelivered packets), limit %d" % (e, st["held"], ceilF(c["rxalloc"]))
        if st["salloc"] > ceilF(c["txalloc"]):
            return "endpoint %d has %d unacknowledged (fragment-rounded) bytes outstanding, peer limit %d" % (e, st["salloc"], ceilF(c["txalloc"]))
        if (st["snext"] - st["sbase"]) % M20 > c["txpw"]:
            return "endpoint %d has %d packets outstanding, window %d" % (e, (st["snext"] - st["sbase"]) % M20, c["txpw"])
        if st["qlen"] > c["rxfw"]:
            return "endpoint %d queues %d ack groups (frame window %d)" % (e, st["qlen"], c["rxfw"])
    return None


def alloc_agreement_oracle(ops, out):
    """C06 (between two uflow endpoints no packet is discarded for lack of receive memory): with two honest
    endpoints the receiver's allocation counter only covers packets that are still in the sender's window (the
    receiver's base is never behind the base the sender has been told), and both sides charge a packet the
    same fragment-rounded size, so receiver alloc <= sender alloc at every moment.  A receiver that keeps
    charging for packets the window has left behind breaks this before it starts refusing packets."""
    last = {}
    for (t, info, term) in events(ops, out):
        if not term or not term.startswith("st "):
            continue
        st = parse_st(term)
        if not st:
            continue
        last[endpoint_of(t)] = st
        for (snd, rcv) in ((0, 1), (1, 0)):
            if snd in last and rcv in last and last[rcv]["ralloc"] > last[snd]["salloc"]:
                return "endpoint %d charges %d bytes of receive allocation while endpoint %d has only %d bytes outstanding (op %s)" % (
                    rcv, last[rcv]["ralloc"], snd, last[snd]["salloc"], " ".join(t[:3]))
    return None


def frame_size_oracle(ops, out):
    for l in out:
        if l.startswith("frame "):
            n = int(l.split()[1])
            if n > 1472:
                return "emitted a frame of %d bytes" % n
    return None


def send_buffer_oracle(ops, out):
    """C20 (observable part): never above what was submitted, zero whenever nothing is outstanding."""
    total = {}
    for (t, info, term) in events(ops, out):
        e = endpoint_of(t)
        if t[0] == "send":
            for l in info:
                if l.startswith("sent "):
                    total[e] = total.get(e, 0) + int(l.split()[3])
        if term and term.startswith("st "):
            st = parse_st(term)
            if not st:
                continue
            if st["sbs"] > total.get(e, 0):
                return "send_buffer_size %d exceeds the %d bytes ever submitted (underflow?)" % (st["sbs"], total.get(e, 0))
            if st["sq"] == 0 and st["sbase"] == st["snext"] and st["sbs"] != 0:
                return "send_buffer_size %d although nothing is queued or unacknowledged" % st["sbs"]
    return None


# ---------------------------------------------------------------- transmission behaviour (C12)

_crc_table = None

def crc_table():
    global _crc_table
    if _crc_table is None:
        src = open(os.path.join(os.environ.get("UFLOW_REPO", "/repo"), "src/frame/serial/crc.rs")).read()
        m = re.search(r'static\s+PARTIAL_RESULTS\s*:\s*\[u32;\s*256\]\s*=\s*\[(.*?)\];', src, re.S)
        _crc_table = [int(w, 16) for w in re.findall(r'0x[0-9A-Fa-f]+', m.group(1))]
    return _crc_table


def crc(data):
    t = crc_table()
    c = 0
    for b in data:
        c = (c >> 8) ^ t[(c ^ b) & 0xFF]
    return c


def payload(ln, seed):
    return bytes(((seed * 31 + i * 7 + (i >> 8)) & 0xFF) for i in range(ln))


def transmission_oracle(ops, out, endpoints=(0, 1)):
    """C12 on the frames an endpoint emitted: at-most-once for Unreliable/TimeSensitive fragments, no
    transmission of a TimeSensitive packet that had not begun by the next step(), nothing after the peer's
    window base passed the packet."""
    cfg = cfg_of(ops)
    ev = events(ops, out)
    for e in endpoints:
        if e not in cfg:
            continue
        subs = []     # (mode, [frag (len, crc)], op index)
        for k, (t, info, term) in enumerate(ev):
            if t[0] == "send" and int(t[1]) == e:
                ln, seed, mode = int(t[4]), int(t[5]), int(t[3])
                data = payload(ln, seed)
                nf = max(1, (ln + F - 1) // F)
                frs = [(len(data[i * F:(i + 1) * F]), crc(data[i * F:(i + 1) * F])) for i in range(nf)]
                subs.append((mode, frs, k))
        seq_info = {}   # seq -> (mode, send op index)
        counts = {}
        first_emit = {}
        released_at = {}   # seq -> op index at which base passed it
        prev_base = cfg[e]["txpb"]
        steps = [k for k, (t, i_, te) in enumerate(ev) if t[0] == "step" and int(t[1]) == e]
        for k, (t, info, term) in enumerate(ev):
            if endpoint_of(t) == e and t[0] == "flush":
                for l in info:
                    if not l.startswith("dg "):
                        continue
                    _, seq, frag, fl, chan, ln, c = l.split()
                    seq, frag, fl, ln, c = int(seq), int(frag), int(fl), int(ln), int(c)
                    if seq not in seq_info:
                        cand = [s for s in subs if len(s[1]) == fl + 1 and s[1][frag] == (ln, c)]
                        if len(cand) >= 1:
                            seq_info[seq] = (cand[0][0], cand[0][2])
                            if len(cand) > 1:
                                seq_info[seq] = (None, None)   # ambiguous payloads: no verdict for this packet
                    mode, sk = seq_info.get(seq, (None, None))
                    key = (seq, frag)
                    counts[key] = counts.get(key, 0) + 1
                    first_emit.setdefault(seq, k)
                    if mode in (0, 1) and counts[key] > 1:
                        return "endpoint %d transmitted fragment %d of %s packet %d %d times" % (
                            e, frag, "TimeSensitive" if mode == 0 else "Unreliable", seq, counts[key])
                    if mode == 0:
                        nxt = [s for s in steps if s > sk]
                        if nxt and first_emit[seq] > nxt[0]:
                            return "endpoint %d began transmitting TimeSensitive packet %d after the step() that followed its send()" % (e, seq)
                    if seq in released_at and released_at[seq] < k:
                        return "endpoint %d transmitted packet %d again after the peer had moved past it" % (e, seq)
            if term and term.startswith("st ") and endpoint_of(t) == e:
                st = parse_st(term)
                if st and st["sbase"] != prev_base:
                    d = (st["sbase"] - prev_base) % M20
                    if d <= 4096:
                        for j in range(d):
                            released_at.setdefault((prev_base + j) % M20, k)
                    prev_base = st["sbase"]
    return None


# ---------------------------------------------------------------- wire rate (C13)

def wire_rate_oracle(ops, out, endpoints=(0, 1)):
    """bytes(t1, t2] <= ceiling * ((t2 - t1) + rtt) + 1472 over every pair of flush instants (virtual clock)."""
    cfg = cfg_of(ops)
    ev = events(ops, out)
    for e in endpoints:
        if e not in cfg:
            continue
        ceiling = cfg[e]["bw"]
        if ceiling < 1472:
            continue
        # flushes that emitted something: (now_ms, bytes emitted, largest rtt_ms estimate since the previous such flush).
        # Intervals that start or end at a flush which emitted nothing are dominated by the ones kept here (same bytes,
        # shorter time), so they are not enumerated.
        pts = []
        now = 0
        rtt_cur = 0        # estimate shown by the latest dump
        rtt_fill = 0       # estimate in force when the latest step() refilled the credit: step() caps the credit with
                           # the estimate it had on entry and only then folds the new feedback into the estimate
        gap = 0
        for (t, info, term) in ev:
            if endpoint_of(t) != e:
                continue
            st = parse_st(term) if term and term.startswith("st ") else None
            if t[0] == "step":
                rtt_fill = rtt_cur
            if st:
                now = st["now"]
                rtt_cur = int(st["rttms"]) if st["rttms"] != "-" else 0
            if t[0] == "flush":
                b = sum(int(l.split()[1]) for l in info if l.startswith("frame "))
                gap = max(gap, rtt_cur, rtt_fill)
                if b > 0:
                    pts.append((now, b, gap))
                    gap = 0
        for i in range(len(pts)):
            acc = 0
            rttmax = 0
            for j in range(i, len(pts)):
                acc += pts[j][1]
                rttmax = max(rttmax, pts[j][2])
                # interval (t_i^-, t_j]: everything flushed from flush i to flush j
                dt = (pts[j][0] - pts[i][0]) / 1000.0
                # one extra millisecond of slack for the clock's resolution
                bound = ceiling * (dt + 0.001 + rttmax / 1000.0) + 1472 + 1
                if acc > bound:
                    return "endpoint %d sent %d bytes in %.3f s (rtt %d ms) under a ceiling of %d B/s (bound %.0f)" % (
                        e, acc, dt, rttmax, ceiling, bound)
    return None


def rtt_recovery_oracle(ops, out, window_ms=30000, min_packets=10):
    """C11, lasting change of the round-trip time (rttstep stream): during the last `window_ms` of virtual time — more
    than half a minute after the change, on a loss-free link, with the application submitting a Reliable packet every
    round — the receiver must have been handed at least `min_packets` packets. A sender pinned at its minimum rate
    (one frame per several seconds) does not get there; one that has adapted delivers a packet per round."""
    ev = events(ops, out)
    end = 0
    for (t, info, term) in ev:
        if t[0] == "step":
            end = max(end, int(t[2]))
    got, now = 0, 0
    submitted_before = 0
    for (t, info, term) in ev:
        if t[0] == "step":
            now = int(t[2])
        if t[0] == "send" and now < end - window_ms:
            submitted_before += 1
        if t[0] == "recv" and t[1] == "1" and now > end - window_ms:
            got += sum(1 for l in info if l.startswith("pkt "))
    total = sum(1 for o in ops if o.startswith("send 0 "))
    delivered_all = sum(1 for (t, info, term) in ev if t[0] == "recv" for l in info if l.startswith("pkt "))
    if delivered_all >= total:
        return None
    if got < min_packets:
        return "only %d packets were handed out during the last %d s of a loss-free link, %d s after its round-trip time changed (%d of %d submitted packets delivered in all): the sender stays at its minimum rate" % (
            got, window_ms // 1000, (end - window_ms) // 1000, delivered_all, total)
    return None


def stall_oracle(ops, out, pairs=((0, 1), (1, 0)), rounds=24):
    """C02/C11 liveness: in the final loss-free phase (relay ops with no faults), a sender that still has
    work pending must make progress; no progress over the last `rounds` loss-free rounds (60 s of virtual
    time at 2.5 s per round) is a stall. Completed transfers trivially pass."""
    sub, dele, last, ev = delivery_trace(ops, out)
    # start of the loss-free suffix
    start = 0
    for k, (t, info, term) in enumerate(ev):
        if t[0] == "relay" and not (t[3] == "0" and t[4] == "0" and t[5] == "0"):
            start = k + 1
    for src, dst in pairs:
        # snapshots after each step of src in the suffix: (sender base, queue length, packets delivered at dst)
        snaps = []
        ndel = 0
        cur = None
        for k, (t, info, term) in enumerate(ev):
            if t[0] == "recv" and int(t[1]) == dst:
                ndel += sum(1 for l in info if l.startswith("pkt "))
            if term and term.startswith("st ") and endpoint_of(t) == src:
                st = parse_st(term)
                if st:
                    cur = (st["sbase"], st["sq"], st["pend"], st["sbs"])
            if k >= start and t[0] == "step" and int(t[1]) == src and cur:
                snaps.append((cur[0], cur[1], ndel, cur[2], cur[3]))
        if len(snaps) < rounds + 1:
            continue
        fin = last.get(src)
        if not fin or (fin["pend"] == 0 and fin["sbs"] == 0):
            continue
        a, b = snaps[-rounds - 1], snaps[-1]
        if a[:3] == b[:3]:
            return "endpoint %d stalled: pending=%d send_buffer=%d but no progress (base %d, queue %d, delivered %d) over the last %d loss-free rounds" % (
                src, fin["pend"], fin["sbs"], b[0], b[1], b[2], rounds)
    return None


def twin_oracle(ops, out):
    """C15: endpoint 2 (which also sees duplicated / replayed genuine acks) must emit the same frames and
    hold the same RTT, loss and rate estimates as endpoint 0 at corresponding points."""
    ev = events(ops, out)
    seq = {0: [], 2: []}
    for (t, info, term) in ev:
        e = endpoint_of(t)
        if e in (0, 2) and t[0] in ("flush", "step"):
            st = parse_st(term) if term and term.startswith("st ") else None
            frames = [l for l in info if l.startswith("frame ")]
            key = None
            if st:
                key = (st["X"], st["mode"], st["plr"], st["rtts"], st["rttms"], st["rtoms"], st["li"], st["rs"], st["sbase"], st["snext"],
                       st["rq"], st["pq"], st["fwbase"], st["fnext"], st["sbs"])
            seq[e].append((t[0], frames, key))
    for i, (a, b) in enumerate(zip(seq[0], seq[2])):
        if a[1] != b[1]:
            return "replayed/duplicated acks changed the frames emitted at %s #%d: %d vs %d frames" % (a[0], i, len(a[1]), len(b[1]))
        if a[2] != b[2]:
            names = ("X", "mode", "prev_loss", "rtt_s", "rtt_ms", "rto_ms", "loss_intervals", "recv_set", "pkt_base", "pkt_next", "resend_q", "pending_q", "frame_base", "frame_next", "send_buffer")
            diff = [n for n, x, y in zip(names, a[2] or (), b[2] or ()) if x != y]
            return "replayed/duplicated acks changed sender state after %s #%d: %s differ" % (a[0], i, ",".join(diff))
    return None


def _bitfield_size(bits):
    return bits.bit_length()


def unsent_ack_oracle(ops, out):
    """C15 on injected acknowledgement frames (`frame e acks fb pb ng (base bits nonce)*`): when every group of the
    frame either has an empty bitfield or spans an id outside the sender's frame log [lbase, next), and the frame's
    own window base equals the sender's current one (so that advancing the transfer window is a no-op), the
    accumulated feedback (`ad`), the reorder buffer (`rb`) and the loss intervals (`li`) must not change: an
    acknowledgement naming a frame that was never sent (or is no longer remembered) has no effect at all."""
    last = {}
    for (t, info, term) in events(ops, out):
        st = parse_st(term) if term and term.startswith("st ") else None
        try:
            e = endpoint_of(t)
        except (ValueError, IndexError):
            e = None
        if t[0] == "frame" and len(t) > 5 and t[2] == "acks" and st and e in last:
            pre = last[e]
            fb, ng = int(t[3]), int(t[5])
            groups = [(int(t[6 + 3 * i]), int(t[7 + 3 * i])) for i in range(ng) if len(t) >= 9 + 3 * i]
            def outside(base, bits):
                n = _bitfield_size(bits)
                if n == 0:
                    return True
                first = (base - pre["flbase"]) % U32
                return first >= pre["fllen"] or first + n > pre["fllen"]
            if groups and len(groups) == ng and fb == pre["fwbase"] and all(outside(b, m) for (b, m) in groups) and any(m for (_, m) in groups):
                for fld, what in (("ad", "feedback accumulator"), ("rb", "reorder buffer"), ("li", "loss intervals"), ("rq", "resend queue length")):
                    if st[fld] != pre[fld]:
                        return ("endpoint %d: an acknowledgement frame whose groups all name frames outside the frame log [%d, +%d) "
                                "changed the %s (%s -> %s)" % (e, pre["flbase"], pre["fllen"], what, pre[fld], st[fld]))
        if st and e is not None:
            last[e] = st
    return None


# ---------------------------------------------------------------- send rate (C14), rate mode

import struct

_SR = re.compile(r"sr (?:reset=(?P<reset>\S+) )?X=(?P<X>\d+) max=(?P<max>\d+) mode=(?P<mode>\S+) plr=(?P<plr>\S+) nfe=(?P<nfe>\S+) "
                 r"idle=(?P<idle>\d) rtts=(?P<rtts>\S+) rttms=(?P<rttms>\S+) rtoms=(?P<rtoms>\S+) rs=(?P<rs>\S+)")


def _f(bits):
    return struct.unpack(">d", struct.pack(">Q", int(bits, 16)))[0]


def _as_u32(x):
    if x != x:
        return 0
    if x <= 0:
        return 0
    if x >= 4294967295.0:
        return 4294967295
    return int(x)


def rate_oracle(ops, out):
    """RFC 5348 bounds on the implementation's SendRateComp observations."""
    prev = None
    MIN = 1472 // 64
    for op, line in zip(ops, out):
        if line.startswith(("PANIC", "HANG", "HARNESS")):
            return "send rate computation crashed: %s" % line
        m = _SR.match(line)
        if not m:
            prev = None if op.startswith("srnew") else prev
            continue
        cur = m.groupdict()
        X, mx = int(cur["X"]), int(cur["max"])
        t = op.split()
        if mx >= 1472 and X > mx:
            return "allowed rate %d exceeds the ceiling %d after `%s`" % (X, mx, op)
        if prev is not None and t[0] == "srstep":
            pX = int(prev["X"])
            if t[2] == "-":
                if X > max(pX, MIN):
                    return "rate increased from %d to %d without feedback (`%s`)" % (pX, X, op)
                if X != pX and X < MIN and mx >= MIN:
                    return "no-feedback expiry lowered the rate to %d, below the s/64 floor" % X
            elif prev["mode"] != "A":
                loss = _f(t[4])
                if prev["mode"].startswith("T") and cur["mode"].startswith("T"):
                    tcp = int(cur["mode"][1:])
                    if X > max(tcp, MIN):
                        return "rate %d above the throughput equation value %d (and the floor) after loss was reported" % (X, tcp)
                    if cur["rtts"] != "-":
                        rtt = _f(cur["rtts"])
                        p = loss
                        import math
                        try:
                            f_p = math.sqrt(p * 2.0 / 3.0) + 12.0 * math.sqrt(p * 3.0 / 8.0) * p * (1.0 + 32.0 * p * p)
                            d = rtt * f_p
                            ref = _as_u32(1472.0 / d) if d != 0 else 4294967295
                        except (ValueError, ZeroDivisionError, OverflowError):
                            ref = None
                        if ref is not None and tcp != ref:
                            return "throughput equation value %d differs from s/(R*f(p)) = %d for rtt %.6f, p %.6g" % (tcp, ref, rtt, p)
                if prev["mode"].startswith("S") and cur["mode"].startswith("S") and cur["rtts"] != "-":
                    rtt = _f(cur["rtts"])
                    init = _as_u32(4380.0 / rtt) if rtt != 0 else 4294967295
                    if X > max(2 * pX, init):
                        return "slow start: rate went from %d to %d (more than doubling, initial rate %d)" % (pX, X, init)
                # RTT moving average
                if cur["rtts"] != "-":
                    sample = float(int(t[2])) / 1000.0
                    exp = sample if prev["rtts"] == "-" else (1.0 - 0.1) * _f(prev["rtts"]) + 0.1 * sample
                    if struct.pack(">d", exp) != struct.pack(">d", _f(cur["rtts"])):
                        return "RTT estimate %r is not the 0.9/0.1 average %r" % (_f(cur["rtts"]), exp)
        prev = cur
    return None


# ================================================================ endpoint mode (ep) oracles

def ep_events(ops, out):
    """[(tokens, info_lines, terminal)] for ep scripts (ops `seed` and `nonce` print nothing)."""
    ev = []
    i = 0
    for op in ops:
        t = op.split()
        if not t or t[0] in ("seed", "nonce"):
            continue
        info, term = [], None
        while i < len(out):
            l = out[i]
            i += 1
            if l.startswith(("st ", "new ", "skipped", "PANIC", "HANG", "HARNESS")):
                term = l
                break
            info.append(l)
        ev.append((t, info, term))
        if term is None:
            break
    return ev


def ep_crash_oracle(ops, out):
    for l in out:
        if l.startswith(("PANIC", "HANG", "HARNESS")):
            return "endpoint crashed or hung: %s" % l[:80]
    return None


def grammar_oracle(ops, out):
    """C08: per connection: Connect? Receive* (Disconnect|Error)?; nothing after the end; a new Connect for an
    address only after the previous connection's terminal event (or the application's own Server::drop)."""
    phase = {}   # key -> 'idle' | 'connected'
    tracked = None   # addresses the server tracked (pending / active / closing) after its previous operation
    for (t, info, term) in ep_events(ops, out):
        who = None
        if t[0].startswith("srv"):
            who = "S"
        elif t[0].startswith("cli"):
            who = "C" + t[1]
        if t[0] == "srvdrop":
            phase[("S", t[1])] = "idle"
        if t[0] == "clinew":
            phase[("C" + t[1], "0")] = "idle"
        for l in info:
            if not l.startswith("ev "):
                continue
            p = l.split()
            kind, addr = p[1], p[2]
            key = (who, addr)
            ph = phase.get(key, "idle")
            if who and who.startswith("C") and ph == "ended":
                return "client %s reported `%s` after its terminal event" % (who, l)
            if who and who.startswith("C") and ph == "connected" and kind == "error" and len(p) > 3 and p[3] in ("version", "config", "full"):
                return "client %s reported the handshake error `%s` for a connection it had already reported as established" % (who, l)
            if kind == "connect":
                if ph == "connected":
                    return "%s: second Connect for address %s without a terminal event in between" % (who, addr)
                phase[key] = "connected"
            elif kind == "receive":
                if ph != "connected":
                    return "%s: Receive for address %s without a preceding Connect" % (who, addr)
            elif kind == "disconnect":
                if ph != "connected":
                    return "%s: Disconnect for address %s without a preceding Connect" % (who, addr)
                phase[key] = "ended" if who.startswith("C") else "idle"
            elif kind == "error":
                if who == "S" and len(p) > 3 and p[3] == "timeout" and tracked is not None and addr not in tracked:
                    return ("server reported Error(Timeout) for address %s which it was not tracking before this step "
                            "(its previous connection had already ended)" % addr)
                phase[key] = "ended" if who.startswith("C") else "idle"
        if term and term.startswith("st clients="):
            tracked = set()
            for part in term.split()[4:]:
                if "=" in part:
                    k, v = part.split("=", 1)
                    if k.isdigit() and v[:1] in "PAC":
                        tracked.add(k)
    return None


_SRVST = re.compile(r"st clients=(\d+) active=(\d+) events=(\d+)(.*)")


def limits_oracle(ops, out):
    """C17: never more than max_active established (state A) nor more than max_total tracked connections."""
    mt = ma = None
    for (t, info, term) in ep_events(ops, out):
        if t[0] == "srvnew":
            mt, ma = int(t[1]), int(t[2])
        if term and term.startswith("st clients="):
            m = _SRVST.match(term)
            if not m or mt is None:
                continue
            tracked = int(m.group(1))
            established = len(re.findall(r"(?:^| )\d+=A", m.group(4)))
            if t[0] == "srvstep" and int(m.group(2)) > tracked:
                # step() ends by pruning its list of active connections to those still established, and every
                # established connection is in the address table: more of the former than of the latter means a
                # live connection the table (and with it max_total_connections) no longer counts
                return "server steps %d established connections but tracks only %d addresses (max_total_connections %d)" % (int(m.group(2)), tracked, mt)
            if tracked > mt:
                return "server tracks %d connections, max_total_connections is %d" % (tracked, mt)
            if established > ma:
                return "server has %d established connections, max_active_connections is %d" % (established, ma)
    return None


def amplification_oracle(ops, out):
    """C18: for an address that has not completed the handshake, bytes sent to it stay below bytes received from it."""
    rx, tx, verified = {}, {}, set()
    for (t, info, term) in ep_events(ops, out):
        if t[0] in ("psend", "psendraw", "psendfix") and term and term.startswith("new sent"):
            rx[t[1]] = rx.get(t[1], 0) + int(term.split()[2])
        for l in info:
            if l.startswith("ev connect") and t[0].startswith("srv"):
                verified.add(l.split()[2])
        if t[0] in ("precv", "pfwd"):
            k = t[1]
            for l in info:
                if l.startswith("dgram S "):
                    tx[k] = tx.get(k, 0) + int(l.split()[2])
                elif l.startswith("dgram ") and t[0] == "pfwd":
                    rx[k] = rx.get(k, 0) + int(l.split()[2])    # forwarded client datagrams arrive from this address
            if k not in verified and tx.get(k, 0) > 0 and tx[k] >= rx.get(k, 0):
                return "server sent %d bytes to unverified address %s from which it had received %d" % (tx[k], k, rx.get(k, 0))
    return None


def handshake_oracle(ops, out):
    """C07 (observable part for raw peers): the server reports Connect for a raw peer only if that peer sent a
    connection request and then an acknowledgement carrying one of the nonces the server could have generated."""
    presets = set()
    sent_syn, acked = {}, {}
    has_client = set()
    for (t, info, term) in ep_events(ops, out):
        pass
    for op in ops:
        pass
    ev = ep_events(ops, out)
    opi = 0
    presets = []
    for op in ops:
        t = op.split()
        if t[0] == "nonce":
            presets.append(int(t[1]))
    seen_presets = []
    pi = 0
    evi = iter(ev)
    pending_ops = [o.split() for o in ops if o.split() and o.split()[0] != "seed"]
    cur = iter(ev)
    state_syn, state_ack = {}, {}
    for t in pending_ops:
        if t[0] == "nonce":
            seen_presets.append(int(t[1]))
            continue
        try:
            (tt, info, term) = next(cur)
        except StopIteration:
            break
        if t[0] == "clinew" and t[2] != "srv":
            has_client.add(t[2])
        if t[0] == "psend" and t[2] == "syn" and t[3] == "3":
            state_syn[t[1]] = True
        if t[0] == "psend" and t[2] == "hsack":
            state_ack.setdefault(t[1], set()).add(int(t[3]))
        if t[0] == "srvstep":
            for l in info:
                if l.startswith("ev connect "):
                    k = l.split()[2]
                    if k in has_client or int(k) >= 100:
                        continue
                    if not state_syn.get(k):
                        return "server reported Connect for address %s which never sent a valid connection request" % k
                    if not (state_ack.get(k, set()) & set(seen_presets)):
                        return "server reported Connect for address %s which never returned a nonce the server generated" % k
                    state_syn[k] = False
                    state_ack[k] = set()
    return None


def single_ack_nonce_oracle(ops, out):
    """C07 (client side): a client acknowledges exactly one server nonce — the one of the SYN+ACK that established
    its connection (duplicates of that SYN+ACK are answered with the same acknowledgement; a SYN+ACK carrying any
    other server nonce is ignored). Hence all handshake-ACK datagrams one client ever emits are byte-identical."""
    seen = {}
    for (t, info, term) in ep_events(ops, out):
        if t[0] == "clinew":
            seen.pop(t[1], None)
        if t[0] == "pfwd":
            k = t[1]
            for l in info:
                p = l.split()
                if len(p) >= 5 and p[0] == "dgram" and p[1] != "S" and p[4] == "a":
                    ident = (p[2], p[3])
                    if k in seen and seen[k] != ident:
                        return "client %s acknowledged two different server nonces (handshake ACK datagrams %s and %s)" % (k, seen[k], ident)
                    seen.setdefault(k, ident)
    return None


def entry_stability_oracle(ops, out):
    """C07 (never reset or replace): the server handles frames before timers within a step, and ignores a
    connection request for an address it tracks, so between two consecutive state dumps an entry can
    neither change the nonces of its pending state nor fall back from active to pending.  Any such
    transition means a handshake frame replaced or reset a (tentative) connection."""
    last = {}
    for (t, info, term) in ep_events(ops, out):
        if not term or not term.startswith("st clients="):
            continue
        cur = {}
        for part in term.split()[4:]:
            if "=" not in part:
                continue
            k, v = part.split("=", 1)
            if k.isdigit() and v[:1] in "PACDF":
                cur[k] = v
        if t[0] == "srvdrop":
            last = cur
            continue
        for k, v in cur.items():
            o = last.get(k)
            if o is None:
                continue
            if o[0] == "P" and v[0] == "P" and o != v:
                return "pending entry for address %s was replaced without leaving the pending state: %s -> %s (op %s)" % (k, o, v, " ".join(t[:2]))
            if o[0] == "A" and v[0] == "P":
                return "active connection for address %s fell back to a pending handshake (op %s)" % (k, " ".join(t[:2]))
        last = cur
    return None


def target_addr(target, j):
    tg = target.get(j)
    if tg is None:
        return None
    return str(100 + int(j)) if tg == "srv" else tg


def flush_order_oracle(ops, out):
    """C09: every Reliable packet a client submitted before disconnect() is delivered to the server application
    before the server reports Disconnect for that client (when the server did not initiate the disconnect)."""
    ev = ep_events(ops, out)
    sent = {}        # client j -> [(len, crc)] reliable, before its disconnect call
    closed = {}      # client j -> bool disconnect() called
    target = {}
    srv_got = {}
    srv_initiated = set()
    for (t, info, term) in ev:
        if t[0] == "clinew":
            target[t[1]] = t[2]
        if t[0] == "clisend" and t[3] == "3" and not closed.get(t[1]) and term and term.startswith("st sbs="):
            ln, seed = int(t[4]), int(t[5])
            sent.setdefault(t[1], []).append((ln, crc(payload(ln, seed))))
        if t[0] == "clidisc":
            if t[2] == "1":
                srv_initiated.add(target_addr(target, t[1]))   # disconnect_now(): the application gave up flushing
            else:
                closed[t[1]] = True
        if t[0] in ("srvdisc", "srvdrop"):
            srv_initiated.add(t[1])
        if t[0].startswith("srv"):
            for l in info:
                p = l.split()
                if p[0] == "ev" and p[1] == "receive":
                    srv_got.setdefault(p[2], []).append((int(p[3]), int(p[4])))
                if p[0] == "ev" and p[1] == "disconnect":
                    addr = p[2]
                    for j, tg in target.items():
                        a = str(100 + int(j)) if tg == "srv" else tg
                        if a == addr and closed.get(j) and addr not in srv_initiated:
                            got = srv_got.get(addr, [])
                            for pk in set(sent.get(j, [])):
                                # packets with equal contents (empty ones in particular) are counted
                                if got.count(pk) < sent[j].count(pk):
                                    return "server reported Disconnect for client %s before delivering its Reliable packet (len %d; %d of %d such packets delivered)" % (j, pk[0], got.count(pk), sent[j].count(pk))
    return None


def server_disconnect_oracle(ops, out):
    """C10 (server side, disconnect attempts): once an entry is Closing (the application asked to disconnect and the
    request went out at server time t_c), Error(Timeout) for it comes no earlier than t_c + 11 * 2000 ms (the first
    request, ten resends 2 s apart, and a last 2 s wait), at most 11 requests reach the peer, and the error
    does come once the steps have run long enough past that budget."""
    closing_since, reqs, last_state = {}, {}, {}
    srv_now = 0
    max_gap, last_step = 0, None
    for (t, info, term) in ep_events(ops, out):
        if t[0] in ("pfwd", "precv"):
            k = t[1]
            n_d = sum(1 for l in info if l.startswith("dgram S ") and l.split()[4] == "d")
            if n_d and k in closing_since:
                reqs[k] = reqs.get(k, 0) + n_d
                if reqs[k] > 11:
                    return "server sent %d disconnect requests to address %s in one attempt (budget: 1 + 10 resends)" % (reqs[k], k)
        if t[0] == "srvstep":
            srv_now = int(t[1])
            if last_step is not None:
                max_gap = max(max_gap, srv_now - last_step)
            last_step = srv_now
            for l in info:
                p = l.split()
                if l.startswith("ev error ") and p[3] == "timeout" and p[2] in closing_since and last_state.get(p[2], "")[:1] == "C":
                    if srv_now - closing_since[p[2]] < 22000:
                        return "server gave up disconnecting address %s after %d ms (< 22000: 10 resends, 2 s apart)" % (p[2], srv_now - closing_since[p[2]])
        if term and term.startswith("st clients="):
            cur = {}
            for part in term.split()[4:]:
                if "=" in part:
                    k, v = part.split("=", 1)
                    if k.isdigit() and v[:1] in "PACDF":
                        cur[k] = v
            for k, v in cur.items():
                if v[0] == "C" and last_state.get(k, "")[:1] != "C":
                    closing_since[k] = srv_now
                    reqs[k] = 0
            for k in list(closing_since):
                if cur.get(k, "")[:1] != "C":
                    del closing_since[k]
            if t[0] == "srvstep":
                for k, t0 in closing_since.items():
                    # every resend is rescheduled from the step that performs it, so steps max_gap apart can delay
                    # each of the 11 waits by at most max_gap
                    if srv_now - t0 > 11 * (2000 + max_gap) + max_gap:
                        return "server still disconnecting address %s %d ms after the request (budget 22000 ms, largest step gap %d ms) without reporting Timeout" % (k, srv_now - t0, max_gap)
            last_state = cur
    return None


def _srv_entries(term):
    cur = {}
    for part in term.split()[4:]:
        if "=" in part:
            k, v = part.split("=", 1)
            if k.isdigit():
                cur[k] = v
    return cur


def server_deadline_oracle(ops, out):
    """C10 (server side, established connections): after every step() at server clock `now`, every established
    entry has its deadline in (now, now + active_timeout_ms] — an entry whose silence has reached the timeout was
    reported and forgotten by this very step (the pass that does it is part of every step), and no deadline lies
    further ahead than one full timeout."""
    ato = t0 = None
    for (t, info, term) in ep_events(ops, out):
        if t[0] == "srvnew":
            ato, t0 = int(t[-2]), int(t[-1])
        if t[0] == "srvstep" and ato is not None and term and term.startswith("st clients="):
            now = int(t[1]) - t0
            for k, v in _srv_entries(term).items():
                m = re.match(r"A(\d+):", v)
                if not m:
                    continue
                to = int(m.group(1))
                if to <= now:
                    return "the server step at %d ms left client %s established although its active timeout expired at %d ms (active_timeout %d)" % (now, k, to, ato)
                if to > now + ato:
                    return "after the server step at %d ms client %s has its deadline at %d ms, more than active_timeout %d ahead" % (now, k, to, ato)
    return None


def pending_budget_oracle(ops, out):
    """C10 / C17 / C18 (server side, handshake attempts): a pending entry (SYN accepted, ACK outstanding) is
    forgotten once its retry budget is used up — it does not stay pending beyond 11 intervals of 2 s (plus the
    slack the step cadence allows: every resend is scheduled from the step that performs it), and at most
    1 + 10 SYN+ACK datagrams are sent to its address while it is pending."""
    since, sent, last = {}, {}, {}
    srv_now, last_step, max_gap = 0, None, 0
    for (t, info, term) in ep_events(ops, out):
        if t[0] in ("pfwd", "precv"):
            k = t[1]
            n_s = sum(1 for l in info if l.startswith("dgram S ") and len(l.split()) > 4 and l.split()[4] == "S")
            if n_s and k in since:
                sent[k] = sent.get(k, 0) + n_s
                if sent[k] > 11:
                    return "server sent %d SYN+ACK datagrams to the unverified address %s within one handshake attempt (budget: 1 + 10 resends)" % (sent[k], k)
        if t[0] == "srvnew":
            since, sent, last = {}, {}, {}
            srv_now, last_step, max_gap = 0, None, 0
        if t[0] == "srvstep":
            srv_now = int(t[1])
            if last_step is not None:
                max_gap = max(max_gap, srv_now - last_step)
            last_step = srv_now
        if term and term.startswith("st clients="):
            cur = _srv_entries(term)
            for k, v in cur.items():
                if v[:1] == "P" and last.get(k) != v:
                    since[k] = srv_now
                    sent[k] = 0
            for k in list(since):
                if cur.get(k, "")[:1] != "P":
                    del since[k]
            if t[0] == "srvstep":
                for k, t0 in since.items():
                    if srv_now - t0 > 11 * (2000 + max_gap) + max_gap:
                        return ("server still holds the pending entry of address %s %d ms after accepting its connection request "
                                "(budget 22000 ms, largest step gap %d ms): the handshake never timed out" % (k, srv_now - t0, max_gap))
            last = cur
    return None


def synack_constant_oracle(ops, out):
    """C07: while an address stays pending (one handshake attempt), every SYN+ACK the server sends to it is the same
    datagram, byte for byte — the reply is computed once from the connection request and the server's own limits,
    and retransmitted unchanged."""
    seen, last = {}, {}
    for (t, info, term) in ep_events(ops, out):
        if t[0] == "srvnew":
            seen, last = {}, {}
        if t[0] in ("pfwd", "precv"):
            k = t[1]
            for l in info:
                p = l.split()
                if len(p) > 4 and p[0] == "dgram" and p[1] == "S" and p[4] == "S" and last.get(k, "")[:1] == "P":
                    ident = (p[2], p[3])
                    if k in seen and seen[k] != ident:
                        return "server sent two different SYN+ACK datagrams (%s, then %s) to address %s within one handshake attempt" % (seen[k], ident, k)
                    seen.setdefault(k, ident)
        if term and term.startswith("st clients="):
            cur = _srv_entries(term)
            for k in set(list(cur) + list(last)):
                if cur.get(k) != last.get(k):
                    seen.pop(k, None)
            last = cur
    return None


def keepalive_oracle(ops, out):
    """C10 (keepalive clause), on `timers` cases of the idle kind only: keepalive enabled on at least one end with an
    interval of at most 5 s (its sync frames are answered, so both ends keep hearing from each other), active
    timeout 20 s on both ends, no application data at all, no datagram dropped after both ends reported Connect,
    steps at most 3 s apart: then no Error(Timeout) is ever reported, however long the run."""
    ka_ok = {}
    ato_ok = {}
    established = set()
    lossless_since = None
    last_now = {}
    for (t, info, term) in ep_events(ops, out):
        if t[0] == "srvnew":
            # srvnew max_total max_active errors msr mrr mps mra keepalive interval active_timeout t0
            ka_ok["S"] = (t[8] == "1" and int(t[9]) <= 5000)
            ato_ok["S"] = int(t[10]) == 20000
        if t[0] == "clinew":
            ka_ok["C" + t[1]] = (t[7] == "1" and int(t[8]) <= 5000)
            ato_ok["C" + t[1]] = int(t[9]) == 20000
        if t[0] in ("clisend", "srvsend", "clidisc", "srvdisc", "srvdrop", "psend", "psendraw", "psendfix", "psendc"):
            return None
        if t[0] in ("clistep", "srvstep"):
            who = "S" if t[0] == "srvstep" else "C" + t[1]
            now = int(t[-1]) if t[0] == "srvstep" else int(t[2])
            if who in last_now and now - last_now[who] > 3000:
                return None
            last_now[who] = now
        if t[0] == "pfwd" and len(established) >= 2 and t[2] != "0":
            return None
        for l in info:
            p = l.split()
            if p[:2] == ["ev", "connect"]:
                established.add(t[0][:3])
            if p[:2] == ["ev", "error"] and len(p) > 3 and p[3] == "timeout" and len(established) >= 2:
                if ka_ok and any(ka_ok.values()) and ato_ok and all(ato_ok.values()):
                    return ("%s reported Error(Timeout) on an idle, loss-free connection with keepalive enabled on %s "
                            "(interval <= 5 s, active timeout 20 s)" % ("server" if t[0].startswith("srv") else "client",
                                                                        "both ends" if all(ka_ok.values()) else "one end"))
    return None


def quiescent_buffer_oracle(ops, out, endpoints=(0, 1)):
    """C20 (returns to zero): at the end of a case that finishes with a long loss-free drain, an endpoint with
    nothing queued, pending or awaiting retransmission reports send_buffer_size() == 0."""
    drains = sum(1 for o in ops[-420:] if o.startswith("relay ") and o.split()[3:6] == ["0", "0", "0"])
    if drains < 60:
        return None
    last = {}
    for (t, info, term) in events(ops, out):
        if term and term.startswith("st "):
            st = parse_st(term)
            if st:
                try:
                    last[endpoint_of(t)] = st
                except (ValueError, IndexError):
                    pass
    for e in endpoints:
        st = last.get(e)
        if st and st["pend"] == 0 and st["sbs"] != 0:
            return "endpoint %d: nothing is pending after a long loss-free drain, yet send_buffer_size() = %d" % (e, st["sbs"])
    return None


def relay_plan(n, drop, dup, swap, seed):
    """The harness's and driver's relay_plan (hc.rs / main.ml): indices of the datagrams delivered, in order."""
    x = seed % 2147483648
    plan = []
    i = 0
    while i < n:
        x = (x * 1103515245 + 12345) % 2147483648
        r = x % 1000
        if r < drop:
            i += 1
        elif r < drop + dup:
            plan += [i, i]; i += 1
        elif r < drop + dup + swap and i + 1 < n:
            plan += [i + 1, i]; i += 2
        else:
            plan.append(i); i += 1
    return plan


def timeout_oracle(ops, out):
    """C10 (client side, observable part): Error(Timeout) of an established client only if nothing was forwarded to
    it during the preceding active_timeout_ms; a handshake times out only after >= 11 transmissions."""
    ev = ep_events(ops, out)
    ato, created, connected, last_rx, syn_count, peer_of = {}, {}, {}, {}, {}, {}
    pending_fwd = {}
    pending_any, recent_S, conn_ident = {}, {}, {}
    disc_at, cli_now = {}, {}
    for (t, info, term) in ev:
        if t[0] == "clidisc":
            cli_now[t[1]] = True            # the request goes out at the client's next step at the earliest
        if t[0] == "clistep" and cli_now.get(t[1]) and t[1] not in disc_at:
            disc_at[t[1]] = int(t[2])
        if t[0] == "clinew":
            j = t[1]
            disc_at.pop(j, None); cli_now.pop(j, None)
            ato[j] = int(t[9]); created[j] = int(t[10]); connected[j] = None; syn_count[j] = 0
            conn_ident[j] = None; recent_S[j] = set(); pending_any[j] = False
            if t[2] != "srv":
                peer_of[t[2]] = j
        if t[0] == "pfwd":
            k = t[1]
            j = peer_of.get(k)
            if j is not None:
                kinds_in = [l.split()[4] for l in info if l.startswith("dgram ")]
                srcs = [l.split()[1] for l in info if l.startswith("dgram ")]
                syn_count[j] += sum(1 for s_, kd in zip(srcs, kinds_in) if s_ != "S" and kd == "s")
                # anything actually forwarded from the server towards the client will be handled at its next
                # step (the relay's drop/duplicate plan is a function of the op, recomputed here)
                plan = relay_plan(len(srcs), int(t[2]), int(t[3]), 0, int(t[4]))
                fwd = term.split()[2] if term and term.startswith("new fwd") and len(term.split()) > 2 else ""
                if "".join(kinds_in[i] for i in plan) != fwd:
                    return None          # the recomputed plan does not explain the relay's report: no verdict
                # A forwarded server frame counts as "heard" only when it is certain to refresh the client's deadline:
                # data / sync / ack frames, and a SYN+ACK only if it is the one the client connected with (an
                # established client ignores a SYN+ACK carrying another server nonce — e.g. after the server dropped
                # the half-open entry and accepted a resent SYN under a new nonce — without counting it as contact).
                idents = [l.split()[3] for l in info if l.startswith("dgram ")]
                for i in plan:
                    if srcs[i] != "S":
                        continue
                    if kinds_in[i] == "S":
                        recent_S.setdefault(j, set()).add(idents[i])
                        if conn_ident.get(j) is not None and idents[i] == conn_ident[j]:
                            pending_fwd[j] = True
                        else:
                            pending_any[j] = True
                    elif kinds_in[i] in ("x", "y", "k"):
                        pending_fwd[j] = True
                    else:
                        pending_any[j] = True
        if t[0] == "psendc":
            j = peer_of.get(t[1])
            if j is not None:
                pending_fwd[j] = True
        if t[0] == "clistep":
            j = t[1]
            now = int(t[2])
            for l in info:
                if l == "ev connect 0":
                    connected[j] = now
                    last_rx[j] = now
                    rs = recent_S.get(j, set())
                    conn_ident[j] = next(iter(rs)) if len(rs) == 1 else None
                if l == "ev error 0 timeout":
                    if connected.get(j) is not None:
                        # established: only after a full active_timeout of silence — or, once the application has
                        # asked to disconnect, after the disconnect retry budget (10 resends, 2 s apart)
                        silent = pending_fwd.get(j) or pending_any.get(j) or now - last_rx.get(j, 0) >= ato[j]
                        gave_up = disc_at.get(j) is not None and now - disc_at[j] >= 20000
                        if not silent and not gave_up:
                            if disc_at.get(j) is not None:
                                return "client %s reported Timeout at %d ms: it handled a frame at %d ms (active_timeout %d) and asked to disconnect only at %d ms (< 20 s ago)" % (j, now, last_rx[j], ato[j], disc_at[j])
                            return "client %s reported Timeout at %d ms although it handled a frame at %d ms (active_timeout %d)" % (j, now, last_rx[j], ato[j])
                    else:
                        if now - created[j] < 22000:
                            return "client %s gave up the handshake after %d ms (< 22 s)" % (j, now - created[j])
            if pending_fwd.get(j):
                last_rx[j] = now
                pending_fwd[j] = False
            pending_any[j] = False
            recent_S[j] = set()
    return None
