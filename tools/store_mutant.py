#!/usr/bin/env python3
"""Stores a confirmed seeded change: store_mutant.py <prefix> <Cxx> <suffix>  ->  /verif/seeded/<Cxx>-<suffix>/
(patch.diff, demo.rs, the agent's meta as meta.agent.json, confirm.txt, and meta.json to be completed after the run)."""
import json, os, shutil, sys
pre, pid, suf = sys.argv[1:4]
src = '/tmp/%s_%s/out' % (pre, pid)
dst = '/verif/seeded/%s-%s' % (pid, suf)
os.makedirs(dst, exist_ok=True)
for f in ('patch.diff', 'demo.rs', 'confirm.txt'):
    shutil.copy(os.path.join(src, f), os.path.join(dst, f))
shutil.copy(os.path.join(src, 'meta.json'), os.path.join(dst, 'meta.agent.json'))
am = json.load(open(os.path.join(src, 'meta.json')))
conf = open(os.path.join(src, 'confirm.txt')).read()
sec = conf.split('## ')
with_demo = [s for s in sec if s.startswith('with patch: demo')][0]
without = [s for s in sec if s.startswith('without patch: demo')][0]
meta = {
    "property": pid,
    "breaks": am.get("summary"),
    "needs_to_manifest": am.get("needs_to_manifest"),
    "files_changed": am.get("files_changed"),
    "demonstration": {"file": "demo.rs", "how_to_include": am.get("demo_location"), "command": am.get("demo_cmd")},
    "agent_ran": am.get("what_you_ran"),
    "confirmed_by_me": {
        "procedure": "tools/confirm_mutant.sh in the agent's scratch worktree of /repo (removed afterwards): demo with patch (must fail); full suite with patch in a private network namespace (only the demo and the wall-clock tests of tests/timeouts.rs / the AddrInUse doctest, flaky under load in this sandbox, may fail); git apply -R patch.diff, demo again (must pass). Raw result lines in confirm.txt.",
        "demo_fails_with_patch": "FAILED" in with_demo,
        "demo_passes_without_patch": "FAILED" not in without and "test result: ok" in without,
    },
    "checks_run": "tools/try_mutant.sh seeded/%s-%s/patch.diff %s (git -C /repo apply; ./check; git -C /repo checkout -- .)" % (pid, suf, pid),
}
json.dump(meta, open(os.path.join(dst, 'meta.json'), 'w'), indent=1)
print(dst, meta["confirmed_by_me"]["demo_fails_with_patch"], meta["confirmed_by_me"]["demo_passes_without_patch"])
