#!/usr/bin/env python3
"""Shared machinery of /verif/check: builds (Coq, extraction, driver, harness), proof audit,
correspondence runs (model vs implementation), evidence and violation reporting."""
import fcntl, hashlib, json, os, re, shutil, subprocess, sys, time

VERIF = os.path.dirname(os.path.dirname(os.path.abspath(__file__)))
REPO = os.environ.get("UFLOW_REPO", "/repo")
WORK = os.path.join(VERIF, ".work")
COQ = os.path.join(VERIF, "coq")
EXTRACT_DIR = os.path.join(WORK, "extract")
TARGET_DIR = os.path.join(WORK, "target")
RUN_DIR = os.path.join(WORK, "run")
EVIDENCE = os.path.join(VERIF, "evidence")
REPLAY_DIR = os.path.join(VERIF, "replays")
NCPU = os.cpu_count() or 4

ENV = dict(os.environ)
ENV.update({"CARGO_NET_OFFLINE": "true", "CARGO_TARGET_DIR": TARGET_DIR,
            "RUSTFLAGS": "--cfg uflow_verif", "UFLOW_REPO": REPO})


class Broken(Exception):
    """A proof obligation or the tie to the source no longer checks."""
    def __init__(self, what, detail=""):
        super().__init__(what)
        self.what = what
        self.detail = detail


def log(msg):
    print("[check] " + msg, flush=True)


def run(cmd, cwd=None, timeout=1800, env=None, input_text=None):
    p = subprocess.run(cmd, cwd=cwd, env=env or ENV, timeout=timeout, text=True,
                       stdout=subprocess.PIPE, stderr=subprocess.STDOUT, input=input_text)
    return p.returncode, p.stdout


class Lock:
    def __init__(self, name="build"):
        os.makedirs(WORK, exist_ok=True)
        self.path = os.path.join(WORK, name + ".lock")
    def __enter__(self):
        self.f = open(self.path, "w")
        fcntl.flock(self.f, fcntl.LOCK_EX)
        return self
    def __exit__(self, *a):
        fcntl.flock(self.f, fcntl.LOCK_UN)
        self.f.close()


# ----------------------------------------------------------------------------- builds

def extract_consts():
    rc, out = run([sys.executable, os.path.join(VERIF, "tools", "extract_consts.py"),
                   os.path.join(COQ, "gen", "Consts.v")])
    if rc != 0:
        raise Broken("translator tools/extract_consts.py failed on the current source", out)
    return out.strip()


def coq_files():
    files = []
    with open(os.path.join(COQ, "_CoqProject")) as f:
        for line in f:
            line = line.strip()
            if line.endswith(".v"):
                files.append(line)
    return files


def coq_make(targets, clean=False, timeout=3000):
    """Full .vo build of the given targets (and their dependencies)."""
    mk = os.path.join(COQ, "Makefile")
    proj = os.path.join(COQ, "_CoqProject")
    if clean and os.path.exists(mk):
        run(["make", "-s", "clean"], cwd=COQ, timeout=300)
    if (not os.path.exists(mk)) or os.path.getmtime(mk) < os.path.getmtime(proj):
        rc, out = run(["coq_makefile", "-f", "_CoqProject", "-o", "Makefile"], cwd=COQ)
        if rc != 0:
            raise Broken("coq_makefile failed", out)
    t0 = time.time()
    rc, out = run(["make", "-j%d" % NCPU] + targets, cwd=COQ, timeout=timeout)
    if rc != 0:
        m = re.search(r'File "([^"]+)", line (\d+)', out)
        where = "%s:%s" % (m.group(1), m.group(2)) if m else "?"
        raise Broken("Coq build failed at %s" % where, out[-4000:])
    return time.time() - t0, out


def sha_files(paths):
    h = hashlib.sha256()
    for p in sorted(paths):
        h.update(p.encode())
        with open(p, "rb") as f:
            h.update(f.read())
    return h.hexdigest()


def build_driver():
    """Extract the model to OCaml and compile the driver (cached on the model sources)."""
    os.makedirs(EXTRACT_DIR, exist_ok=True)
    srcs = [os.path.join(COQ, f) for f in coq_files() if f.startswith(("gen/", "model/"))]
    srcs += [os.path.join(COQ, "extract", "Extract.v"), os.path.join(VERIF, "driver", "main.ml")]
    key = sha_files(srcs)
    stamp = os.path.join(EXTRACT_DIR, "stamp")
    exe = os.path.join(EXTRACT_DIR, "model_run")
    if os.path.exists(stamp) and os.path.exists(exe) and open(stamp).read() == key:
        return exe
    model_vo = [f[:-2] + ".vo" for f in coq_files() if f.startswith(("gen/", "model/"))]
    coq_make(model_vo)
    rc, out = run(["coqc", "-Q", os.path.join(COQ, "gen"), "UF", "-Q", os.path.join(COQ, "model"), "UF",
                   os.path.join(COQ, "extract", "Extract.v")], cwd=EXTRACT_DIR, timeout=900)
    if rc != 0:
        raise Broken("extraction failed", out[-3000:])
    shutil.copy(os.path.join(VERIF, "driver", "main.ml"), os.path.join(EXTRACT_DIR, "main.ml"))
    rc, out = run(["ocamlfind", "ocamlopt", "-rectypes", "-thread", "-package", "coq-core.kernel", "-linkpkg", "-O3", "-w", "-a",
                   "uf_model.mli", "uf_model.ml", "main.ml", "-o", "model_run"], cwd=EXTRACT_DIR, timeout=900)
    if rc != 0:
        raise Broken("driver compilation failed", out[-3000:])
    open(stamp, "w").write(key)
    return exe


def build_harness(release=False):
    """Rebuild the harness against /repo's current working tree (cargo decides what is stale)."""
    hdir = os.path.join(VERIF, "harness")
    lock = os.path.join(hdir, "Cargo.lock")
    if not os.path.exists(lock):
        shutil.copy(os.path.join(REPO, "Cargo.lock"), lock)
    cmd = ["cargo", "build", "--offline", "--quiet"] + (["--release"] if release else [])
    rc, out = run(cmd, cwd=hdir, timeout=1800)
    if rc != 0:
        errs = "\n".join(l for l in out.splitlines() if not l.startswith("warning"))
        raise Broken("harness/implementation no longer builds with --cfg uflow_verif", errs[-4000:])
    return os.path.join(TARGET_DIR, "release" if release else "debug", "uflow-verif-harness")


# ----------------------------------------------------------------------------- audit

FORBIDDEN = re.compile(r'\b(Admitted|admit|Axiom|Axioms|Parameter|Parameters|Conjecture|Conjectures|'
                       r'Admit Obligations|bypass_check|Unset Guard Checking|Unset Positivity Checking|'
                       r'Unset Universe Checking|type-in-type|impredicative-set)\b')

def strip_comments(src):
    out, depth, i = [], 0, 0
    while i < len(src):
        if src.startswith("(*", i):
            depth += 1; i += 2
        elif src.startswith("*)", i) and depth > 0:
            depth -= 1; i += 2
        else:
            if depth == 0:
                out.append(src[i])
            i += 1
    return "".join(out)


def audit_sources():
    """No Admitted/admit/Axiom/Parameter/... and no top-level Variable/Hypothesis anywhere."""
    bad = []
    for f in coq_files():
        if f.startswith("gen/"):
            continue
        src = strip_comments(open(os.path.join(COQ, f)).read())
        for m in FORBIDDEN.finditer(src):
            bad.append("%s: forbidden '%s'" % (f, m.group(1)))
        depth = 0
        for line in src.splitlines():
            s = line.strip()
            if re.match(r'Section\b', s): depth += 1
            elif re.match(r'End\b', s) and depth > 0: depth -= 1
            elif depth == 0 and re.match(r'(Variable|Variables|Hypothesis|Hypotheses|Context)\b', s):
                bad.append("%s: section-less '%s'" % (f, s[:40]))
    if bad:
        raise Broken("source audit failed", "\n".join(bad))


ALLOWED_AXIOM_PREFIXES = (
    # primitive integers / arrays / floats: declared by Coq's standard library
    "Uint63.", "PrimInt63.", "Sint63.", "PArray.", "PrimArray.", "PrimFloat.", "FloatAxioms.", "FloatLemmas.",
    "Coq.Numbers.Cyclic.Int63.", "Coq.Array.", "Coq.Floats.",
)
ALLOWED_AXIOMS = set([
    "functional_extensionality_dep", "FunctionalExtensionality.functional_extensionality_dep",
    "Classical_Prop.classic", "classic", "proof_irrelevance", "Eqdep.Eq_rect_eq.eq_rect_eq", "JMeq_eq",
])

def parse_assumptions(build_out, theorems):
    """Reads the `Print Assumptions` blocks that coqc printed while compiling props/Cxx.v.
    Only available when the file was actually recompiled; callers force that."""
    res = {}
    # coqc prints either "Closed under the global context" or "Axioms:\n name : type ..."
    blocks = re.split(r'\n(?=Closed under the global context|Axioms:)', build_out)
    return blocks


def print_assumptions(prop_file, theorems):
    """Re-run Print Assumptions for the named theorems in a scratch file (cheap, needs the .vo)."""
    modname = os.path.basename(prop_file)[:-2]
    src = "From UF Require Import %s.\n" % modname
    for t in theorems:
        src += 'Goal True. idtac "BEGIN %s". exact I. Qed.\nPrint Assumptions %s.\n' % (t, t)
    src += 'Goal True. idtac "BEGIN _end". exact I. Qed.\n'
    os.makedirs(RUN_DIR, exist_ok=True)
    scratch = os.path.join(RUN_DIR, "pa_%s_%d.v" % (modname, os.getpid()))
    open(scratch, "w").write(src)
    args = ["coqc", "-noglob"]
    for d in ("gen", "model", "proofs", "props", "crc_hd"):
        args += ["-Q", os.path.join(COQ, d), "UF"]
    rc, out = run(args + [scratch], cwd=RUN_DIR, timeout=900)
    for ext in (".v", ".vo", ".vok", ".vos"):
        try: os.remove(scratch[:-2] + ext)
        except OSError: pass
    if rc != 0:
        raise Broken("Print Assumptions failed for %s" % modname, out[-3000:])
    result = {}
    parts = re.split(r'BEGIN (\S+)\n', out)
    # parts: [pre, name1, body1, name2, body2, ...]
    for i in range(1, len(parts) - 1, 2):
        name, body = parts[i], parts[i + 1]
        if name == "_end":
            continue
        if "Closed under the global context" in body:
            result[name] = []
        else:
            axs = [a for a in re.findall(r'^([A-Za-z_][\w.\']*)\s*:', body, re.M) if a != "Axioms"]
            result[name] = axs
    missing = [t for t in theorems if t not in result]
    if missing:
        raise Broken("Print Assumptions output missing for %s" % missing, out[-2000:])
    bad = []
    for t, axs in result.items():
        for a in axs:
            if a in ALLOWED_AXIOMS or a.startswith(ALLOWED_AXIOM_PREFIXES):
                continue
            bad.append("%s depends on non-allow-listed axiom %s" % (t, a))
    if bad:
        raise Broken("axiom audit failed", "\n".join(bad))
    return result


def count_obligations(coq_deps):
    """Number of Qed-closed statements in the given .v files."""
    n = 0
    names = []
    for f in coq_deps:
        src = strip_comments(open(os.path.join(COQ, f)).read())
        for m in re.finditer(r'^\s*(?:Local\s+|Global\s+)?(Theorem|Lemma|Corollary|Example|Fact|Remark|Proposition)\s+([\w\']+)', src, re.M):
            n += 1
            names.append(m.group(2))
    return n, names


def coq_dep_closure(target_v):
    """Transitive .v dependencies of a property file inside the project (via coqdep)."""
    args = ["coqdep", "-f", "_CoqProject"]
    rc, out = run(args, cwd=COQ, timeout=300)
    deps = {}
    for line in out.splitlines():
        if ":" not in line: continue
        lhs, rhs = line.split(":", 1)
        tg = [t for t in lhs.split() if t.endswith(".vo")]
        if not tg: continue
        v = tg[0][:-1]
        deps[v] = [d[:-1] for d in rhs.split() if d.endswith(".vo")]
    seen, stack = [], [target_v]
    while stack:
        v = stack.pop()
        if v in seen: continue
        seen.append(v)
        stack.extend(deps.get(v, []))
    return [v for v in seen if os.path.exists(os.path.join(COQ, v))]


# ----------------------------------------------------------------------------- correspondence

def split_cases(text):
    cases, cur, name = {}, None, None
    order = []
    for line in text.splitlines():
        if line.startswith("case "):
            name = line[5:].strip()
            cur = []
            cases[name] = cur
            order.append(name)
        elif cur is not None:
            cur.append(line)
    return order, cases


def _unlimit_stack():
    import resource
    try:
        resource.setrlimit(resource.RLIMIT_STACK, (resource.RLIM_INFINITY, resource.RLIM_INFINITY))
    except (ValueError, OSError):
        pass


def run_side(exe, mode, script_path, timeout=600, extra_args=()):
    t0 = time.time()
    try:
        p = subprocess.run([exe, mode, script_path] + list(extra_args), stdout=subprocess.PIPE,
                           stderr=subprocess.PIPE, timeout=timeout, env=ENV, preexec_fn=_unlimit_stack)
        return p.returncode, p.stdout.decode("utf-8", "replace"), p.stderr.decode("utf-8", "replace"), time.time() - t0
    except subprocess.TimeoutExpired as e:
        out = (e.stdout or b"").decode("utf-8", "replace")
        return -9, out, "timeout", time.time() - t0


def shard(cases, n):
    """cases: list of (name, [op lines]) -> n scripts (strings)"""
    shards = [[] for _ in range(n)]
    for i, c in enumerate(cases):
        shards[i % n].append(c)
    return [s for s in shards if s]


def run_correspondence(prop, stream, mode, cases, impl_exe, model_exe, nshards=None, timeout=900):
    """Runs the same cases through the implementation harness and the extracted model.
    Returns (impl_outputs, model_outputs, disagreements) keyed by case name."""
    import concurrent.futures
    nshards = nshards or min(NCPU, max(1, len(cases) // 8))
    d = os.path.join(RUN_DIR, prop, stream)
    shutil.rmtree(d, ignore_errors=True)
    os.makedirs(d, exist_ok=True)
    jobs = []
    for i, sh in enumerate(shard(cases, nshards)):
        path = os.path.join(d, "s%02d.script" % i)
        with open(path, "w") as f:
            for name, ops in sh:
                f.write("case %s\n" % name)
                for op in ops:
                    f.write(op + "\n")
        jobs.append(path)
    impl_out, model_out = {}, {}
    def both(path):
        a = run_side(impl_exe, mode, path, timeout)
        b = run_side(model_exe, mode, path, timeout)
        return path, a, b
    with concurrent.futures.ThreadPoolExecutor(max_workers=NCPU) as ex:
        for path, a, b in ex.map(both, jobs):
            if b[0] != 0:
                raise Broken("model driver failed on %s (rc=%s)" % (path, b[0]), b[2][-2000:])
            _, ca = split_cases(a[1])
            _, cb = split_cases(b[1])
            if a[0] != 0:
                # the harness died (abort / hang watchdog): the last case it started is incomplete
                order, _ = split_cases(a[1])
                if order:
                    ca[order[-1]].append("HARNESS-DIED rc=%s" % a[0])
                # cases never started are marked
                for name in cb:
                    if name not in ca:
                        ca[name] = ["HARNESS-NOT-RUN"]
            impl_out.update(ca)
            model_out.update(cb)
    disagreements = []
    for name, _ in cases:
        ia, mb = impl_out.get(name), model_out.get(name)
        if ia != mb:
            k = 0
            while ia and mb and k < min(len(ia), len(mb)) and ia[k] == mb[k]:
                k += 1
            disagreements.append((name, k,
                                  (ia[k] if ia and k < len(ia) else "<end>"),
                                  (mb[k] if mb and k < len(mb) else "<end>")))
    return impl_out, model_out, disagreements


# ----------------------------------------------------------------------------- reporting

def write_replay(prop, name, content):
    os.makedirs(REPLAY_DIR, exist_ok=True)
    path = os.path.join(REPLAY_DIR, "%s_%s.txt" % (prop, name))
    with open(path, "w") as f:
        f.write(content)
    return path


def write_evidence(prop, tier, seed, coverage, assumptions, wall_s, violations):
    os.makedirs(EVIDENCE, exist_ok=True)
    ev = {"property_id": prop, "tier": tier, "seed": seed, "level": "proof", "coverage": coverage,
          "assumptions": assumptions, "wall_s": round(wall_s, 2), "violations": violations}
    with open(os.path.join(EVIDENCE, prop + ".json"), "w") as f:
        json.dump(ev, f, indent=1)


def load_known_findings():
    path = os.path.join(VERIF, "known_findings.txt")
    findings, fixed = [], []
    if os.path.exists(path):
        for line in open(path):
            line = line.strip()
            if line.startswith("finding:"):
                m = re.match(r'finding:\s+property=(\S+)\s+class=(\S+)\s+(.*)', line)
                if m:
                    findings.append({"property": m.group(1), "class": m.group(2), "what": m.group(3)})
            elif line.startswith("fixed:"):
                fixed.append(line)
    return findings, fixed
