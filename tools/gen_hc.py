"""Script generators for the half-connection (`hc`) and send-rate (`rate`) correspondence modes."""
import struct
from gen_frames import hexbytes

F = 1448
U32 = 2 ** 32


def f64bits(x):
    return "%016x" % struct.unpack(">Q", struct.pack(">d", x))[0]


def pick_cfg(r, hostile=False):
    W = r.choice([2, 4, 4, 8, 16, 64, 4096])
    FW = r.choice([4, 16, 64, 4096, 4096])
    pb = [r.choice([0, 1, 2 ** 20 - 3, 2 ** 20 - 1, r.randrange(2 ** 20)]) for _ in range(2)]
    fb = [r.choice([0, 5, U32 - 2, U32 - 1, r.randrange(U32)]) for _ in range(2)]
    bw = r.choice([1472, 5000, 100000, 1000000, 2000000, U32 - 1])
    alloc = [r.choice([1448, 3000, 10000, 100000, 1000000]) for _ in range(2)]
    ka = r.choice(["-", "1000", "5000"])
    return dict(W=W, FW=FW, pb=pb, fb=fb, bw=bw, alloc=alloc, ka=ka)


def hcnew_lines(c, now=0):
    # endpoint 0 sends to endpoint 1 and vice versa: bases crossed, alloc limits crossed
    l0 = "hcnew 0 %d %d %d %d %d %d %d %d %d %d %d %s %d" % (
        c["fb"][0], c["fb"][1], c["FW"], c["FW"], c["pb"][0], c["pb"][1], c["W"], c["W"], c["bw"], c["alloc"][1], c["alloc"][0], c["ka"], now)
    l1 = "hcnew 1 %d %d %d %d %d %d %d %d %d %d %d %s %d" % (
        c["fb"][1], c["fb"][0], c["FW"], c["FW"], c["pb"][1], c["pb"][0], c["W"], c["W"], c["bw"], c["alloc"][0], c["alloc"][1], c["ka"], now)
    return [l0, l1]


def pick_len(r, limit):
    k = r.random()
    if k < 0.35:
        n = r.choice([0, 1, 5, 63, 64, 100, 255, 256])
    elif k < 0.7:
        m = r.choice([1, 1, 2, 2, 3])
        n = m * F + r.choice([-1, 0, 1, -F + 1, 0])
    else:
        n = r.randrange(0, 3 * F)
    return max(0, min(n, limit))


def pair_case(r, faults=True, rounds=None, ideal=False, drain=None, use_credit=True, blackout=False):
    """Two honest half-connections through a (faulty) relay. Payload seeds are a per-case counter, so every
    (length, seed) pair and hence every payload is unique within a case."""
    c = pick_cfg(r)
    if ideal:
        c["ka"] = r.choice(["-", "5000"])
    nsent = [0]
    ops = ["seed %d" % r.randrange(U32)] + hcnew_lines(c)
    now = 0
    rounds = rounds or r.choice([3, 6, 10, 20])
    drop, dup, swap = (0, 0, 0)
    if faults and not ideal:
        drop, dup, swap = r.choice([(0, 0, 0), (100, 0, 0), (300, 50, 50), (0, 300, 0), (0, 0, 400), (700, 0, 0), (150, 150, 150)])
    stats = dict(sends=0, relays=0)
    for t in range(rounds):
        now += r.choice([0, 1, 5, 20, 20, 100, 100, 1000, 3000])
        for e in (0, 1):
            o = 1 - e
            for _ in range(r.choice([0, 0, 1, 1, 2, 5])):
                limit = min(c["alloc"][o], 3 * F)
                if nsent[0] >= 250:
                    break
                ops.append("send %d %d %d %d %d" % (e, r.choice([0, 0, 1, 2, 63, r.randrange(64)]), r.randrange(4), pick_len(r, limit), nsent[0]))
                nsent[0] += 1
                stats["sends"] += 1
            ops.append("step %d %d" % (e, now))
            if use_credit and r.random() < 0.5:
                ops.append("credit %d %d" % (e, r.choice([-5, 0, 30, 100, 1472, 3000, 10000, 1000000])))
            ops.append("flush %d" % e)
            if r.random() < 0.15:
                ops.append("flush %d" % e)
            dark = blackout and (rounds // 3 <= t < 2 * rounds // 3)
            if ideal or r.random() < 0.85:
                if dark:
                    ops.append("relay %d %d 1000 0 0 1" % (e, o))     # blackout: everything lost
                else:
                    ops.append("relay %d %d %d %d %d %d" % (e, o, drop, dup, swap, r.randrange(2 ** 31)))
                stats["relays"] += 1
            if ideal or r.random() < 0.8:
                ops.append("recv %d" % o)
    # drain: fault-free rounds so that reliable data completes
    for t in range(r.choice([0, 4, 8]) if drain is None else drain):
        now += r.choice([50, 200, 700, 2500]) if drain is None else 2500
        for e in (0, 1):
            ops.append("step %d %d" % (e, now))
            if use_credit:
                ops.append("credit %d 100000" % e)
            ops.append("flush %d" % e)
            ops.append("relay %d %d 0 0 0 1" % (e, 1 - e))
            ops.append("recv %d" % (1 - e))
    return ops, stats


def ideallat_case(r):
    """An ideal link with latency: nothing is lost, duplicated or reordered, but frames of either direction are held
    back for a few rounds (seconds) before they arrive. Small frame windows and multi-fragment packets, so that a
    sender sits on a full frame window with fragments of the current packet still unsent while the sync timer runs."""
    c = pick_cfg(r)
    c["FW"] = r.choice([4, 4, 16])
    c["W"] = r.choice([64, 4096])
    c["alloc"] = [100000, 100000]
    c["bw"] = 2000000
    c["ka"] = r.choice(["-", "5000"])
    ops = ["seed %d" % r.randrange(U32)] + hcnew_lines(c)
    now = 0
    nsent = 0
    hold = [0, 0]
    for t in range(r.choice([6, 10, 16])):
        now += r.choice([100, 500, 1000, 1000, 3000])
        for e in (0, 1):
            o = 1 - e
            for _ in range(r.choice([0, 1, 2, 4]) if e == 0 else r.choice([0, 0, 1])):
                if nsent >= 250:
                    break
                ops.append("send %d %d %d %d %d" % (e, r.choice([0, 1, 63]), r.choice([1, 1, 1, 2, 3]), r.choice([100, F + 1, 2 * F, 2 * F + 5, 3 * F]), nsent))
                nsent += 1
            ops.append("step %d %d" % (e, now))
            ops.append("credit %d 1000000" % e)
            ops.append("flush %d" % e)
            if hold[e] > 0:
                hold[e] -= 1
            else:
                ops.append("relay %d %d 0 0 0 1" % (e, o))
                if r.random() < 0.35:
                    hold[e] = r.choice([1, 2, 3])
            ops.append("recv %d" % o)
    for t in range(40):
        now += 2500
        for e in (0, 1):
            ops.append("step %d %d" % (e, now))
            ops.append("credit %d 100000" % e)
            ops.append("flush %d" % e)
            ops.append("relay %d %d 0 0 0 1" % (e, 1 - e))
            ops.append("recv %d" % (1 - e))
    return ops


def cadence_case(r, bw=None, dt=None, secs=None):
    """A sender with a low ceiling that steps and flushes every few milliseconds (an application polling in a tight
    loop) with more data queued than the ceiling lets through; the peer answers every 50 ms. No credit override:
    every byte of flush credit comes from step(). Rounding in the per-step refill shows here and nowhere else."""
    bw = bw or r.choice([1472, 1750, 1750, 2500, 3300, 10100])
    dt = dt or r.choice([1, 1, 1, 2, 3, 7])
    secs = secs or r.choice([3, 4, 6])
    c = pick_cfg(r)
    c["W"] = 256                # windows as small as the load allows: the model's cost per step grows with them
    c["FW"] = 64
    c["alloc"] = [10000000, 10000000]
    c["ka"] = "-"
    l0, l1 = hcnew_lines(c)
    f0 = l0.split(); f0[10] = str(bw)
    f1 = l1.split(); f1[10] = "1000000"
    ops = ["seed %d" % r.randrange(U32), " ".join(f0), " ".join(f1)]
    n = min(250, bw * (secs + 2) // 1000 + 8)
    for i in range(n):
        ops.append("send 0 %d 1 1000 %d" % (r.choice([0, 1]), i))
    now = 0
    nxt = 50
    while now < secs * 1000:
        now += dt
        ops.append("step 0 %d" % now)
        ops.append("flush 0")
        if now >= nxt:
            nxt += 50
            ops += ["relay 0 1 0 0 0 1", "recv 1", "step 1 %d" % now, "flush 1", "relay 1 0 0 0 0 1"]
    return ops


def rttstep_case(r, d1=None, d2=None):
    """C11, lasting change of the round-trip time: an ideal link whose latency is one round (every frame emitted in a
    round is handled by the peer in the next one). After a phase of short rounds the rounds become 20 to 60 times
    longer and stay so for more than a minute of virtual time, while the application keeps submitting one Reliable
    packet per round. No credit override: rate, credit and timers are the implementation's own."""
    d1 = d1 or r.choice([5, 10, 10, 20])
    d2 = d2 or r.choice([300, 400, 400, 600])
    c = pick_cfg(r)
    c["W"] = 256
    c["FW"] = 256
    c["alloc"] = [10000000, 10000000]
    c["bw"] = r.choice([1000000, 2000000, U32 - 1])
    c["ka"] = "-"
    ops = ["seed %d" % r.randrange(U32)] + hcnew_lines(c)
    now = 0
    k = 0
    def rnd(D, send):
        nonlocal now, k
        now += D
        if send:
            ops.append("send 0 %d 3 1000 %d" % (k % 2, k))
            k += 1
        ops.extend(["step 0 %d" % now, "flush 0", "step 1 %d" % now, "flush 1", "relay 0 1 0 0 0 1", "relay 1 0 0 0 0 1", "recv 1"])
    for i in range(r.choice([60, 100])):
        rnd(d1, True)
    for i in range(int(70000 / d2)):
        rnd(d2, k < 245)
    return ops


def chanmix_case(r):
    """Two channels, Unreliable / Persistent / Reliable packets interleaved, heavy frame loss, a receive() after
    every relay: the receive window stalls behind a lost Reliable packet of one channel while the other channel
    keeps delivering in separate receive() calls, advances partially, and old Persistent packets are resent late."""
    c = pick_cfg(r)
    c["W"] = r.choice([8, 16, 64, 4096])
    c["FW"] = r.choice([64, 4096])
    c["bw"] = r.choice([1000000, 2000000])
    c["alloc"] = [1000000, 1000000]
    c["ka"] = "-"
    nsent = 0
    ops = ["seed %d" % r.randrange(U32)] + hcnew_lines(c)
    now = 0
    drop = r.choice([300, 400, 500, 600])
    chans = r.sample(range(64), 2)
    for t in range(r.choice([30, 60, 90])):
        now += r.choice([5, 20, 50, 100, 200])
        e = 0 if r.random() < 0.8 else 1
        o = 1 - e
        for _ in range(r.choice([0, 1, 1, 2, 3])):
            if nsent >= 250:
                break
            ops.append("send %d %d %d %d %d" % (e, r.choice(chans), r.choice([1, 2, 2, 3, 3]), r.choice([1, 5, 40, 100]), nsent))
            nsent += 1
        ops.append("step %d %d" % (e, now))
        ops.append("credit %d 100000" % e)
        ops.append("flush %d" % e)
        ops.append("relay %d %d %d 0 0 %d" % (e, o, drop, r.randrange(2 ** 31)))
        ops.append("recv %d" % o)
        ops.append("step %d %d" % (o, now))
        ops.append("credit %d 100000" % o)
        ops.append("flush %d" % o)
        ops.append("relay %d %d %d 0 0 %d" % (o, e, r.choice([0, 0, drop]), r.randrange(2 ** 31)))
        ops.append("recv %d" % e)
    for t in range(12):
        now += 2500
        for e in (0, 1):
            ops.append("step %d %d" % (e, now))
            ops.append("credit %d 100000" % e)
            ops.append("flush %d" % e)
            ops.append("relay %d %d 0 0 0 1" % (e, 1 - e))
            ops.append("recv %d" % (1 - e))
    return ops


def tswin_case(r):
    """A tiny frame window, ample byte budget, bursts of TimeSensitive / Unreliable packets whose sizes do not pack
    evenly into frames: flushes end because the frame window is full while a frame is half built and packets
    are still queued; acknowledgements reopen the window one step later."""
    c = pick_cfg(r)
    c["FW"] = r.choice([4, 4, 16])
    c["W"] = r.choice([64, 4096])
    c["bw"] = 2000000
    c["alloc"] = [1000000, 1000000]
    c["ka"] = "-"
    nsent = 0
    ops = ["seed %d" % r.randrange(U32)] + hcnew_lines(c)
    now = 0
    for t in range(r.choice([8, 15, 25])):
        now += r.choice([1, 5, 20, 50])
        # TimeSensitive packets are only transmitted by a flush in the same step as their send(): send after step()
        ops.append("step 0 %d" % now)
        for _ in range(r.choice([3, 6, 9, 14])):
            if nsent >= 250:
                break
            ops.append("send 0 %d %d %d %d" % (r.randrange(3), r.choice([0, 0, 0, 1, 3]), r.choice([300, 500, 700, 724, 725, 1000, 1400, 1448, 2000]), nsent))
            nsent += 1
        ops.append("credit 0 1000000")
        ops.append("flush 0")
        if r.random() < 0.85:
            ops.append("relay 0 1 %d 0 0 %d" % (r.choice([0, 0, 200]), r.randrange(2 ** 31)))
        ops.append("recv 1")
        ops.append("step 1 %d" % now)
        ops.append("credit 1 100000")
        ops.append("flush 1")
        if r.random() < 0.7:
            ops.append("relay 1 0 0 0 0 1")
    for t in range(6):
        now += 2500
        for e in (0, 1):
            ops.append("step %d %d" % (e, now))
            ops.append("credit %d 1000000" % e)
            ops.append("flush %d" % e)
            ops.append("relay %d %d 0 0 0 1" % (e, 1 - e))
            ops.append("recv %d" % (1 - e))
    return ops


def ackflood_case(r):
    """C13: an honest pair gets an RTT estimate, idles, then endpoint `e` is handed a few hundred data frames
    whose ids are >= 32 apart (one acknowledgement group each), so that far more acknowledgement data is owed
    than fits one frame; all credit comes from step(), flushes follow at short intervals."""
    c = pick_cfg(r)
    c["FW"] = r.choice([64, 4096, 4096])
    c["bw"] = r.choice([5000, 20000, 100000, 1000000])
    nsent = 0
    ops = ["seed %d" % r.randrange(U32)] + hcnew_lines(c)
    now = 0
    e = r.randrange(2)
    o = 1 - e
    for t in range(r.choice([4, 8])):
        now += r.choice([20, 50, 100, 100])
        for x in (0, 1):
            for _ in range(r.choice([1, 1, 2])):
                ops.append("send %d %d %d %d %d" % (x, r.randrange(4), r.randrange(4), pick_len(r, min(c["alloc"][1 - x], 3 * F)), nsent))
                nsent += 1
            ops.append("step %d %d" % (x, now))
            ops.append("flush %d" % x)
            ops.append("relay %d %d 0 0 0 1" % (x, 1 - x))
            ops.append("recv %d" % (1 - x))
    for t in range(r.choice([1, 3, 6])):
        now += r.choice([200, 500, 1000])
        for x in (0, 1):
            ops.append("step %d %d" % (x, now))
            ops.append("flush %d" % x)
            ops.append("relay %d %d 0 0 0 1" % (x, 1 - x))
            ops.append("recv %d" % (1 - x))
    ngroups = r.choice([170, 200, 400, 1000])
    stride = r.choice([32, 33, 40, min(63, c["FW"] - 1)])
    fid = (c["fb"][o] + 200) % U32
    for i in range(ngroups):
        ops.append("frame %d data %d %d 0" % (e, fid, r.randrange(2)))
        fid = (fid + stride) % U32
    for t in range(r.choice([10, 25, 40])):
        now += r.choice([0, 1, 5, 20, 50, 100])
        ops.append("step %d %d" % (e, now))
        ops.append("flush %d" % e)
        if r.random() < 0.5:
            ops.append("relay %d %d 0 0 0 1" % (e, o))
            ops.append("step %d %d" % (o, now))
            ops.append("flush %d" % o)
            ops.append("relay %d %d 0 0 0 1" % (o, e))
    return ops


def hostile_datagram(r, c, e):
    """A datagram aimed at endpoint e's receive window (ids inside / at the edge / outside)."""
    base = c["pb"][1 - e]
    W = c["W"]
    off = r.choice([0, 0, 1, 1, 2, 3, W - 1, W, W + 1, 2 ** 20 - 1, r.randrange(0, max(1, W)), r.randrange(2 ** 20)])
    seq = (base + off) % 2 ** 20
    chan = r.choice([0, 0, 1, 63, 64, 200, r.randrange(64)])
    wpl = r.choice([0, 0, 1, 2, 3, 5, W, 65535])
    cpl = r.choice([0, 0, 1, 2, 3, 5, 7, 65535])
    kind = r.random()
    if kind < 0.5:
        fl, fid = 0, 0
        n = r.choice([0, 1, 10, 100, F])
    else:
        fl = r.choice([1, 1, 2, 3, 65535, r.randrange(1, 20)])
        fid = min(65535, r.choice([0, fl, r.randrange(0, fl + 1), fl + 1]))
        n = F if (fid < fl and r.random() < 0.85) else r.choice([0, 1, 100, F, F + 1])
    return "%d %d %d %d %d %d %s" % (seq, chan, wpl, cpl, fid, fl, "-" if n == 0 else ("%02x" % r.randrange(256)) * n)


def hostile_case(r):
    """One endpoint fed hostile but well-typed frames, mixed with its own API calls."""
    c = pick_cfg(r)
    e = 0
    ops = ["seed %d" % r.randrange(U32)] + hcnew_lines(c)[:1]
    now = 0
    fnext = c["fb"][1]
    nflush = 0
    for t in range(r.choice([5, 10, 25, 40])):
        k = r.random()
        if k < 0.45:
            nd = r.choice([1, 1, 2, 3])
            fid = (fnext + r.choice([0, 0, 0, 1, 2, 31, 32, 33, c["FW"] - 1, c["FW"], U32 - 1, r.randrange(U32)])) % U32
            if r.random() < 0.7:
                fnext = (fid + 1) % U32
            ops.append("frame %d data %d %d %d %s" % (e, fid, r.randrange(2), nd, " ".join(hostile_datagram(r, c, e) for _ in range(nd))))
        elif k < 0.55:
            opt = lambda base, span: "-" if r.random() < 0.3 else str((base + r.choice([0, 1, 2, span - 1, span, span + 1, 2 ** 20, 2 ** 20 + 3, r.randrange(U32)])) % U32)
            ops.append("frame %d sync %s %s" % (e, opt(fnext, c["FW"]), opt(c["pb"][1], c["W"])))
        elif k < 0.70:
            ng = r.choice([0, 1, 1, 2, 3])
            fb = (c["fb"][0] + r.choice([0, 0, 1, 2, 3, 5, c["FW"], r.randrange(U32)])) % U32
            pb = (c["pb"][0] + r.choice([0, 0, 1, 2, 3, 5, c["W"], 2 ** 20, 2 ** 20 + 1, r.randrange(U32)])) % U32
            # group bases around (and just before) the frames this endpoint has sent so far; bitfields with
            # clear low bits so that a group can start before the log and still name a remembered frame
            gs = " ".join("%d %d %d" % ((c["fb"][0] + r.choice([0, 0, 1, 2, 30, 31, 32, -1, -1, -2, -3, -31, -32, nflush - 1, nflush - 1, nflush - 2, nflush, r.randrange(-3, nflush + 3), r.randrange(-3, nflush + 3), r.randrange(U32)])) % U32,
                                        r.choice([0, 1, 1, 3, 3, 5, 7, 7, 15, 2, 2, 4, 6, 8, 12, 1 << r.randrange(32), 2 ** 31, U32 - 1, r.randrange(U32)]), r.randrange(2)) for _ in range(ng))
            ops.append(("frame %d acks %d %d %d %s" % (e, fb, pb, ng, gs)).strip())
        elif k < 0.80:
            ops.append("send %d %d %d %d %d" % (e, r.randrange(64), r.randrange(4), pick_len(r, min(c["alloc"][1], 3 * F)), r.randrange(1000)))
        elif k < 0.90:
            now += r.choice([0, 0, 1, 10, 100, 2500])
            ops.append("step %d %d" % (e, now))
            if r.random() < 0.6:
                ops.append("credit %d %d" % (e, r.choice([-1, 0, 100, 5000, 1000000])))
            ops.append("flush %d" % e)
            nflush += 1
        else:
            ops.append("recv %d" % e)
    ops.append("recv %d" % e)
    ops.append("step %d %d" % (e, now + 10))
    ops.append("credit %d 100000" % e)
    ops.append("flush %d" % e)
    return ops


def hoard_case(r):
    """A peer that ignores the advertised receive allocation: complete multi-fragment packets behind a missing one
    (so that nothing can be handed out), more of them than the limit allows, with no receive() in between. What the
    endpoint holds — reassembly buffers and complete undelivered packets alike — must stay within its limit."""
    c = pick_cfg(r)
    c["W"] = r.choice([16, 64, 4096])
    c["FW"] = r.choice([64, 4096])
    c["alloc"][0] = r.choice([1448, 3000, 10000])
    e = 0
    ops = ["seed %d" % r.randrange(U32)] + hcnew_lines(c)[:1]
    base = c["pb"][1]
    fid = c["fb"][1]
    fl = r.choice([1, 1, 2])
    k = min(c["W"] - 2, c["alloc"][0] // ((fl + 1) * F) + r.choice([2, 3, 5]))
    now = 0
    for i in range(1, k + 1):
        seq = (base + i) % 2 ** 20
        chan = r.choice([0, 0, 5])
        wpl = i if r.random() < 0.8 else 0          # mostly: waits for the missing packet at the window base
        for f in range(fl + 1):
            n = F if f < fl else r.choice([1, 100, F - 1, F])
            ops.append("frame %d data %d %d 1 %d %d %d 0 %d %d %s" % (e, fid, r.randrange(2), seq, chan, wpl, f, fl, ("%02x" % r.randrange(256)) * n))
            fid = (fid + 1) % U32
        if r.random() < 0.2:
            now += r.choice([1, 10, 100])
            ops += ["step %d %d" % (e, now), "credit %d 100000" % e, "flush %d" % e]
    if r.random() < 0.5:
        ops.append("frame %d data %d %d 1 %d 0 0 0 0 0 %s" % (e, fid, r.randrange(2), base, "ab" * 10))   # the missing packet arrives
    ops.append("recv %d" % e)
    ops += ["step %d %d" % (e, now + 10), "credit %d 100000" % e, "flush %d" % e]
    return ops


def tx_case(r):
    """One sender: sends cut by small credits, acks (genuine, duplicated, forged) injected by echoing
    through a passive second endpoint."""
    c = pick_cfg(r)
    ops = ["seed %d" % r.randrange(U32)] + hcnew_lines(c)
    now = 0
    for t in range(r.choice([5, 10, 20])):
        now += r.choice([0, 1, 10, 50, 200, 1000])
        for _ in range(r.choice([0, 1, 1, 3])):
            ops.append("send 0 %d %d %d %d" % (r.randrange(4), r.randrange(4), pick_len(r, min(c["alloc"][1], 3 * F)), r.randrange(1000)))
        ops.append("step 0 %d" % now)
        ops.append("credit 0 %d" % r.choice([-1, 0, 10, 100, 1000, 1472, 1473, 2944, 100000]))
        ops.append("flush 0")
        ops.append("relay 0 1 %d 0 0 %d" % (r.choice([0, 0, 300]), r.randrange(2 ** 31)))
        ops.append("recv 1")
        ops.append("step 1 %d" % now)
        ops.append("credit 1 100000")
        ops.append("flush 1")
        k = r.random()
        if k < 0.5:
            ops.append("relay 1 0 0 0 0 1")
        elif k < 0.8:
            ops.append("relay 1 0 0 1000 0 1")       # every ack duplicated
        # else: ack lost
        if r.random() < 0.3:
            ops.append("deliver 1 %d 0" % r.randrange(1000))   # replay of an old ack frame
    return ops


# ------------------------------------------------------------------ rate mode

def rate_case(r):
    ceiling = r.choice([1472, 1473, 5000, 100000, 2000000, U32 - 1, r.randrange(1472, U32)])
    ops = ["srnew %d" % ceiling]
    now = r.choice([0, 0, 5, 1000])
    ops.append("srsent %d" % now)
    loss = 0.0
    for t in range(r.choice([3, 8, 20, 40])):
        now += r.choice([0, 0, 1, 10, 50, 200, 1000, 2000, 5000, 60000])
        k = r.random()
        if k < 0.6:
            rtt = r.choice([0, 0, 1, 2, 10, 50, 100, 500, 3000, r.randrange(0, 5000)])
            rr = r.choice([0, 1, 22, 23, 1000, 100000, 2 ** 31, U32 - 1, r.randrange(U32)])
            m = r.random()
            if m < 0.4:
                pass
            elif m < 0.7:
                loss = min(1.0, loss + r.choice([1e-9, 0.001, 0.01, 0.1, 0.5]))
            elif m < 0.85:
                loss = max(0.0, loss - r.choice([0.001, 0.05, 0.5]))
            else:
                loss = r.choice([0.0, 1.0, 1e-300, 0.5, r.random()])
            ops.append("srstep %d %d %d %s %d" % (now, rtt, rr, f64bits(loss), r.randrange(2)))
        elif k < 0.85:
            ops.append("srstep %d -" % now)
        else:
            ops.append("srsent %d" % now)
    if r.random() < 0.4:
        # long silence: every step is past the no-feedback deadline; the sender keeps transmitting (or stays idle)
        busy = r.random() < 0.7
        for t in range(r.choice([5, 12, 20, 30])):
            if busy or r.random() < 0.3:
                ops.append("srsent %d" % now)
            now += r.choice([100000, 500000, 3000000])
            ops.append("srstep %d -" % now)
    return ops


def tput_cases(r, n):
    ops = []
    for _ in range(n):
        rtt = r.choice([0.0, 1e-3, 0.05, 0.1, 3.0, r.random() * 2])
        p = r.choice([0.0, 1e-9, 0.001, 0.01, 0.1, 0.5, 1.0, r.random()])
        ops.append("tput %s %s" % (f64bits(rtt), f64bits(p)))
    return ops


def twin_case(r):
    """C15: the same sender/receiver session run twice in one script: endpoints (0,1) see every ack once,
    endpoints (2,3) additionally see duplicates and delayed replays of genuine ack frames. The two senders
    (0 and 2) must stay indistinguishable."""
    c = pick_cfg(r)
    c["W"] = r.choice([64, 4096])
    c["FW"] = 4096
    l0, l1 = hcnew_lines(c)
    l2 = l0.replace("hcnew 0 ", "hcnew 2 ", 1)
    l3 = l1.replace("hcnew 1 ", "hcnew 3 ", 1)
    ops = ["seed %d" % r.randrange(U32), l0, l1, l2, l3]
    now = 0
    k = 0
    for t in range(r.choice([5, 10, 20])):
        now += r.choice([1, 10, 50, 200, 1000])
        sends = []
        for _ in range(r.choice([0, 1, 1, 3])):
            sends.append((r.randrange(4), r.randrange(4), pick_len(r, min(c["alloc"][1], 3 * F)), k))
            k += 1
        credit = r.choice([100, 1000, 1472, 2944, 100000])
        loss_seed = r.randrange(2 ** 31)
        loss = r.choice([0, 0, 300])
        ack_lost = False   # every ack frame is delivered at least once, so a later `deliver` is a true replay
        for (a, b) in ((0, 1), (2, 3)):
            for (ch, m, ln, sd) in sends:
                ops.append("send %d %d %d %d %d" % (a, ch, m, ln, sd))
            ops.append("step %d %d" % (a, now))
            ops.append("credit %d %d" % (a, credit))
            ops.append("flush %d" % a)
            ops.append("relay %d %d %d 0 0 %d" % (a, b, loss, loss_seed))
            ops.append("recv %d" % b)
            ops.append("step %d %d" % (b, now))
            ops.append("credit %d 100000" % b)
            ops.append("flush %d" % b)
            if not ack_lost:
                if a == 0:
                    ops.append("relay %d %d 0 0 0 1" % (b, a))
                else:
                    ops.append("relay %d %d 0 0 0 1" % (b, a))
                    for _ in range(r.choice([0, 1, 3])):
                        ops.append("replayack %d %d %d" % (b, 10 ** 6 - r.randrange(1, 4), a))   # duplicate of a recent ack
            elif a == 2:
                ops.append("relay %d %d 1000 0 0 1" % (b, a))   # keep the relay cursors of both runs aligned
            else:
                ops.append("relay %d %d 1000 0 0 1" % (b, a))
            if a == 2 and r.random() < 0.5:
                for _ in range(r.choice([1, 2, 5])):
                    ops.append("replayack 3 %d 2" % r.randrange(1000))   # delayed replay of an earlier ack frame
    return ops


def mixack_case(r):
    """C15: two identical senders (0 and 2) without receivers; the script itself plays the peer. Both get the same
    fresh acknowledgements; sender 2's groups additionally name frames that were acknowledged earlier (a peer that
    re-acknowledges, or a forger that has seen the nonces). Each group is sent in both nonce parities — exactly one
    of them reproduces the parity of the frames it names. Used for the model/implementation correspondence of
    acknowledge_group on groups that mix new and already acknowledged frames (no twin verdict: such a group may be
    refused when it spans a forgotten frame, and it carries the rate-limited flags of its whole span)."""
    c = pick_cfg(r)
    c["W"] = r.choice([64, 4096])
    c["FW"] = 4096
    c["alloc"] = [100000, 100000]
    c["ka"] = "-"
    l0 = hcnew_lines(c)[0]
    ops = ["seed %d" % r.randrange(U32), l0, l0.replace("hcnew 0 ", "hcnew 2 ", 1)]
    fb, pb = c["fb"][0], c["pb"][0]
    n = r.choice([2, 3, 4, 6])
    now = 0
    for i in range(n):
        now += r.choice([10, 50, 100, 100, 400])
        ln = r.choice([10, 100, 500])
        md = r.choice([1, 1, 3])
        for e in (0, 2):
            ops += ["send %d %d %d %d %d" % (e, r.choice([0, 1]) if e == 0 else 0, md, ln, i), "step %d %d" % (e, now), "credit %d 100000" % e, "flush %d" % e]
        # keep both scripts identical apart from the endpoint number
        ops[-8] = ops[-4].replace("send 2 ", "send 0 ", 1)

    def group(S):
        lo = min(S)
        return (fb + lo) % U32, sum(1 << (i - lo) for i in S)

    def feed(e, S):
        gb, bits = group(S)
        for par in (0, 1):
            ops.append("frame %d acks %d %d 1 %d %d %d" % (e, fb, pb, gb, bits, par))

    rest = list(range(n))
    r.shuffle(rest)
    done = []
    while rest:
        k = r.randrange(1, len(rest) + 1) if done else r.randrange(1, max(2, len(rest)))
        S, rest = rest[:k], rest[k:]
        now += r.choice([20, 100, 150, 300])
        feed(0, S)
        extra = r.sample(done, r.randrange(1, len(done) + 1)) if done and r.random() < 0.8 else []
        feed(2, S + extra)
        for e in (0, 2):
            ops += ["step %d %d" % (e, now), "credit %d 100000" % e, "flush %d" % e]
        done += S
    now += 500
    for e in (0, 2):
        ops += ["step %d %d" % (e, now), "credit %d 100000" % e, "flush %d" % e]
    return ops


def reuse_case(r):
    """Small packet windows and same-shaped multi-fragment packets with fragment loss: a slot is reused by a
    packet with identical header fields exactly one window after a partially received packet was abandoned."""
    c = pick_cfg(r)
    c["W"] = r.choice([2, 4, 4, 8])
    c["alloc"] = [100000, 100000]
    ops = ["seed %d" % r.randrange(U32)] + hcnew_lines(c)
    now = 0
    k = 0
    nfr = r.choice([2, 2, 3])
    for t in range(r.choice([12, 25, 40])):
        now += r.choice([20, 100, 2500, 2500])
        for e in (0,):
            for _ in range(r.choice([1, 1, 2])):
                ln = (nfr - 1) * F + r.choice([1, 5, 700, F])
                ops.append("send %d %d %d %d %d" % (e, 0, r.choice([1, 1, 1, 0, 2]), ln, k)); k += 1
            ops.append("step %d %d" % (e, now))
            ops.append("credit %d 100000" % e)
            ops.append("flush %d" % e)
            ops.append("relay %d %d %d 0 0 %d" % (e, 1 - e, r.choice([0, 250, 400, 500]), r.randrange(2 ** 31)))
            ops.append("recv %d" % (1 - e))
        ops.append("step 1 %d" % now)
        ops.append("credit 1 100000")
        ops.append("flush 1")
        ops.append("relay 1 0 0 0 0 1")
    return ops
