"""Script generators for the endpoint (`ep`) correspondence mode: a Server, Clients and raw peers."""

U32 = 2 ** 32
F = 1448


def ec(r, ato=None, ka=None, small=False):
    """endpoint config tokens: max_send_rate max_receive_rate max_packet_size max_receive_alloc keepalive interval active_timeout"""
    msr = r.choice([1472, 100000, 2000000, 2000000])
    mrr = r.choice([1472, 100000, 2000000, 2000000])
    mps = r.choice([100, 1448, 5000, 1000000]) if not small else r.choice([100, 1448])
    mra = max(mps, r.choice([1448, 10000, 1000000]))
    kalive = r.choice([0, 1, 1]) if ka is None else ka
    kai = r.choice([1000, 5000])
    at = r.choice([3000, 20000, 20000]) if ato is None else ato
    return "%d %d %d %d %d %d %d" % (msr, mrr, mps, mra, kalive, kai, at), dict(mps=mps, mra=mra, ato=at)


def pick_len(r, limit):
    return max(0, min(limit, r.choice([0, 1, 50, 100, 300, F - 1, F, F + 1, 2 * F, 3000])))


class Gen:
    def __init__(self, r):
        self.r = r
        self.ops = ["seed %d" % r.randrange(U32)]
        self.now = 0
        self.k = 0          # payload seed counter
        self.nonce_ctr = r.randrange(1, 2 ** 31)

    def nonce(self, v=None):
        if v is None:
            v = self.r.choice([0, 1, U32 - 1, 2 ** 20 - 1, self.r.randrange(U32)])
        self.ops.append("nonce %d" % v)
        return v

    def tick(self, dts=(0, 1, 10, 50, 100, 500, 2000, 2100)):
        self.now += self.r.choice(dts)
        return self.now


def flushburst_case(r):
    """C09: one client, a server that buffers little (max_receive_alloc of one to a few fragments), a burst of
    Reliable packets of uneven sizes that exceeds it several times over, then a flushing disconnect() from the
    client; light or no loss; afterwards enough quiet steps for every retry budget."""
    g = Gen(r)
    smra = r.choice([1448, 1448, 3000, 5000, 10000])
    scfg = "2000000 2000000 %d %d %d 5000 20000" % (min(smra, r.choice([1448, 5000])), smra, r.randrange(2))
    g.ops.append("srvnew 4096 32 %d %s 0" % (r.randrange(2), scfg))
    g.ops.append("peer 0")
    g.nonce()
    cmps = r.choice([1448, 5000])
    g.ops.append("clinew 0 0 2000000 2000000 %d 100000 %d 5000 20000 0" % (cmps, r.randrange(2)))
    drop = r.choice([0, 0, 0, 100, 300])
    sent = False
    burst_at = r.choice([3, 4, 6])
    for t in range(r.choice([20, 40])):
        now = g.tick((10, 50, 100, 500))
        if t == burst_at:
            for _ in range(r.choice([4, 6, 10])):
                ln = min(smra, cmps, r.choice([1, 100, 700, 700, F - 1, F, F + 1, 2 * F + 100, 3000]))
                g.ops.append("clisend 0 %d 3 %d %d" % (r.randrange(4), ln, g.k)); g.k += 1
            if r.random() < 0.5:
                g.ops.append("clisend 0 %d 3 0 %d" % (r.randrange(4), g.k)); g.k += 1
            g.ops.append("clidisc 0 0")
        g.ops.append("clistep 0 %d" % now)
        g.ops.append("pfwd 0 %d 0 %d" % (drop, r.randrange(2 ** 31)))
        g.nonce()
        g.ops.append("srvstep %d" % now)
        g.ops.append("pfwd 0 %d 0 %d" % (drop, r.randrange(2 ** 31)))
    for t in range(14):
        now = g.tick((2000, 2100, 5000))
        g.ops.append("clistep 0 %d" % now)
        g.ops.append("pfwd 0 0 0 1")
        g.ops.append("srvstep %d" % now)
        g.ops.append("pfwd 0 0 0 1")
    return g.ops


def reconnect_case(r):
    """An address that comes back: connect, disconnect (from either side, sometimes followed by the application's
    drop() while the old entry lingers), connect again from the same address within the linger, keep that
    connection alive past the old entry's timers, let another address connect, and reconnect once more."""
    g = Gen(r)
    scfg = "2000000 2000000 1448 100000 %d 5000 20000" % r.randrange(2)
    g.ops.append("srvnew %d %d %d %s 0" % (r.choice([1, 2, 4096]), r.choice([2, 32]), r.randrange(2), scfg))
    g.ops.append("peer 0")
    g.ops.append("peer 1")
    def run(ms, clients, dts=(100, 500, 1000)):
        end = g.now + ms
        while g.now < end:
            now = g.tick(dts)
            for j in clients:
                g.ops.append("clistep %d %d" % (j, now))
                g.ops.append("pfwd %d 0 0 1" % j)
            for _ in clients:
                g.nonce()
            g.nonce()
            g.ops.append("srvstep %d" % now)
            for j in (0, 1):
                g.ops.append("pfwd %d 0 0 1" % j)
    def connect(j):
        g.nonce()
        g.ops.append("clinew %d %d 2000000 2000000 1448 100000 1 %d 20000 %d" % (j, j, r.choice([1000, 5000]), g.now))
    connect(0)
    run(r.choice([500, 2000]), [0])
    for cycle in range(2):
        who = r.choice(["cli", "cli", "srv"])
        g.ops.append("clidisc 0 %d" % r.randrange(2) if who == "cli" else "srvdisc 0 %d" % r.randrange(2))
        run(r.choice([500, 1500, 3000]), [0])
        if r.random() < 0.6:
            g.ops.append("srvdrop 0")
        run(r.choice([0, 1000, 3000]), [0])
        connect(0)                                  # the same address again, within the 20 s linger
        run(r.choice([22000, 26000]), [0], dts=(500, 1000, 2000))
        if cycle == 0:
            connect(1)                              # another address, after the old entry's timers have fired
            run(3000, [0, 1])
    run(5000, [0, 1])
    return g.ops


def lifecycle_case(r, max_clients=3):
    """A server and 1-3 real clients behind relay peers: handshake under loss, data both ways, disconnects from
    either side (flush / now), drops, timeouts, all API calls at any point."""
    k0 = r.random()
    if k0 < 0.25:
        return flushburst_case(r)
    if k0 < 0.37:
        return reconnect_case(r)
    g = Gen(r)
    scfg, sinfo = ec(r)
    g.ops.append("srvnew %d %d %d %s 0" % (r.choice([4096, 4, 2]), r.choice([32, 2, 1]), r.randrange(2), scfg))
    nc = r.randrange(1, max_clients + 1)
    ccfg = {}
    for j in range(nc):
        g.ops.append("peer %d" % j)
    started = set()
    drop = r.choice([0, 0, 100, 300, 500])
    dup = r.choice([0, 0, 200])
    for t in range(r.choice([15, 30, 60])):
        now = g.tick()
        for j in range(nc):
            if j not in started:
                if r.random() < 0.6:
                    g.nonce()
                    cfg, info = ec(r)
                    ccfg[j] = info
                    g.ops.append("clinew %d %d %s %d" % (j, j, cfg, now))
                    started.add(j)
                continue
            a = r.random()
            if a < 0.25:
                g.ops.append("clisend %d %d %d %d %d" % (j, r.randrange(64), r.randrange(4), pick_len(r, ccfg[j]["mps"]), g.k)); g.k += 1
            elif a < 0.32:
                mode = r.choice([0, 0, 1])
                if mode == 0 and r.random() < 0.8:
                    # a burst of Reliable packets that together exceed what the server is willing to buffer
                    # (max_receive_alloc): the sender has to wait for window space, the disconnect for the sender
                    lim = min(ccfg[j]["mps"], sinfo["mra"])
                    for _ in range(r.choice([3, 5, 8])):
                        g.ops.append("clisend %d %d 3 %d %d" % (j, r.randrange(4), min(lim, r.choice([100, 700, F, F + 1, 2 * F + 100, 3000])), g.k)); g.k += 1
                if mode == 0 and r.random() < 0.5:
                    # the last things queued before a flushing disconnect: empty Reliable packets (end-of-stream
                    # markers), which weigh nothing in the send buffer but must still be delivered first
                    for _ in range(r.choice([1, 1, 2, 3])):
                        g.ops.append("clisend %d %d 3 0 %d" % (j, r.randrange(64), g.k)); g.k += 1
                g.ops.append("clidisc %d %d" % (j, mode))
            elif a < 0.36:
                g.ops.append("cliflush %d" % j)
            g.ops.append("clistep %d %d" % (j, now))
            if r.random() < 0.9:
                g.ops.append("pfwd %d %d %d %d" % (j, drop, dup, r.randrange(2 ** 31)))
        for _ in range(nc):
            g.nonce()
        g.ops.append("srvstep %d" % now)
        for j in range(nc):
            b = r.random()
            if b < 0.2:
                g.ops.append("srvsend %d %d %d %d %d" % (j, r.randrange(64), r.randrange(4), pick_len(r, sinfo["mps"]), g.k)); g.k += 1
            elif b < 0.24:
                g.ops.append("srvdisc %d %d" % (j, r.randrange(2)))
            elif b < 0.27:
                g.ops.append("srvdrop %d" % j)
        if r.random() < 0.3:
            g.ops.append("srvflush")
        for j in range(nc):
            if r.random() < 0.9:
                g.ops.append("pfwd %d %d %d %d" % (j, drop, dup, r.randrange(2 ** 31)))
    # wind down: long enough for every retry budget (22 s) and closed timeout (20 s)
    for t in range(14):
        now = g.tick((2000, 2100, 5000))
        for j in sorted(started):
            g.ops.append("clistep %d %d" % (j, now))
            g.ops.append("pfwd %d 0 0 1" % j)
        g.ops.append("srvstep %d" % now)
        for j in range(nc):
            g.ops.append("pfwd %d 0 0 1" % j)
    return g.ops


def forge_case(r):
    """Raw peers forging every handshake / control frame with chosen nonces at every point of a real client's
    exchange and of raw handshakes; incompatible configurations."""
    g = Gen(r)
    scfg, sinfo = ec(r)
    g.ops.append("srvnew %d %d %d %s 0" % (r.choice([4096, 3]), r.choice([32, 2]), r.randrange(2), scfg))
    for k in range(4):
        g.ops.append("peer %d" % k)
    # peer 0 relays a real client
    have_client = r.random() < 0.7
    cn = {}
    sn = {}
    if have_client:
        cn[0] = g.nonce()
        cfg, info = ec(r)
        g.ops.append("clinew 0 0 %s 0" % cfg)
    def forged(k):
        kind = r.randrange(11)
        known_c = cn.get(k, r.randrange(U32))
        known_s = sn.get(k, r.randrange(U32))
        pickn = lambda good: r.choice([good, good, (good + 1) % U32, r.randrange(U32), 0])
        if kind == 0:
            v = r.choice([3, 3, 3, 2, 4, 0, 255])
            c = r.choice([known_c, r.randrange(U32)])
            cn[k] = c
            sn[k] = g.nonce()
            mrr = r.choice([0, 1, 1472, 2000000, U32 - 1]); mps = r.choice([0, 100, 1448, 1000000, U32 - 1]); mra = r.choice([0, 100, 1448, 1000000, U32 - 1])
            return "psend %d syn %d %d %d %d %d" % (k, v, c, mrr, mps, mra)
        if kind == 1:
            return "psend %d hsack %d" % (k, pickn(known_s))
        if kind == 2:
            return "psend %d synack %d %d %d %d %d" % (k, pickn(known_c), r.randrange(U32), 2000000, 1000, 1000000)
        if kind == 3:
            return "psend %d hserr %d %d" % (k, pickn(known_c), r.randrange(3))
        if kind == 4:
            return "psend %d disc" % k
        if kind == 5:
            return "psend %d discack" % k
        if kind == 6:
            return "psend %d sync %s %s" % (k, r.choice(["-", str(r.randrange(U32))]), r.choice(["-", str(r.randrange(U32))]))
        if kind == 7:
            return "psend %d acks %d %d 0" % (k, r.randrange(U32), r.randrange(U32))
        if kind == 10:
            # a data / sync frame numbered from the peer's own SYN nonce (which is where a genuine client's frame ids
            # start): nothing in it proves that the peer has seen the server's nonce
            fid = (known_c + r.choice([0, 0, 1, 2, 100, 4095, 4096])) % U32
            return r.choice(["psend %d data %d %d 1 %d 0 0 0 0 0 aabb" % (k, fid, r.randrange(2), r.choice([0, known_c % 2 ** 20, sn.get(k, 0) % 2 ** 20])),
                             "psend %d sync %d -" % (k, fid)])
        if kind == 8:
            return "psendraw %d %s" % (k, "".join("%02x" % r.randrange(256) for _ in range(r.choice([0, 4, 5, 9, 25, 100]))) or "-")
        # forged frames towards the attached client (peer 0 only has one)
        c = pickn(cn.get(0, 0))
        return r.choice(["psendc 0 synack %d %d 2000000 1000000 1000000" % (c, r.randrange(U32)),
                         "psendc 0 hserr %d %d" % (c, r.randrange(3)),
                         "psendc 0 disc", "psendc 0 discack", "psendc 0 hsack %d" % r.randrange(U32),
                         "psendc 0 syn 3 %d 1 1 1" % r.randrange(U32)])
    for t in range(r.choice([10, 25, 50])):
        now = g.tick()
        for _ in range(r.choice([0, 1, 1, 2, 4])):
            g.ops.append(forged(r.randrange(4)))
        if have_client:
            if r.random() < 0.15:
                g.ops.append("clisend 0 %d %d %d %d" % (r.randrange(64), r.randrange(4), min(info["mps"], r.choice([0, 10, 100])), g.k)); g.k += 1
            g.ops.append("clistep 0 %d" % now)
            if r.random() < 0.85:
                g.ops.append("pfwd 0 %d 0 %d" % (r.choice([0, 0, 300]), r.randrange(2 ** 31)))
        g.nonce()
        g.ops.append("srvstep %d" % now)
        if r.random() < 0.1:
            g.ops.append("srvdrop %d" % r.randrange(4))
        for k in range(4):
            if k == 0 and have_client:
                if r.random() < 0.85:
                    g.ops.append("pfwd 0 %d 0 %d" % (r.choice([0, 0, 300]), r.randrange(2 ** 31)))
            else:
                g.ops.append("precv %d" % k)
    return g.ops


def limits_case(r):
    """Small connection limits and many raw peers whose handshakes overlap in every way; connections end by
    disconnect, drop or timeout in between."""
    g = Gen(r)
    scfg, sinfo = ec(r, ato=r.choice([3000, 20000]))
    mt, ma = r.choice([(1, 1), (2, 1), (2, 2), (3, 2), (4, 2), (4, 4), (8, 3)])
    g.ops.append("srvnew %d %d %d %s 0" % (mt, ma, r.randrange(2), scfg))
    for k in range(8):
        g.ops.append("peer %d" % k)
    cn, sn, state = {}, {}, {}
    for t in range(r.choice([10, 25, 50])):
        now = g.tick((0, 1, 10, 100, 2100, 4000))
        for k in r.sample(range(8), r.choice([1, 2, 4, 8])):
            a = r.random()
            if a < 0.45:
                cn[k] = r.randrange(U32)
                sn[k] = g.nonce()
                g.ops.append("psend %d syn 3 %d 2000000 100 1000000" % (k, cn[k]))
            elif a < 0.8:
                g.ops.append("psend %d hsack %d" % (k, sn.get(k, r.randrange(U32))))
            elif a < 0.9:
                g.ops.append("psend %d disc" % k)
            else:
                g.ops.append("psend %d sync - -" % k)     # traffic that refreshes the active timeout
        g.ops.append("srvstep %d" % now)
        b = r.random()
        if b < 0.15:
            g.ops.append("srvdrop %d" % r.randrange(8))
        elif b < 0.3:
            g.ops.append("srvdisc %d %d" % (r.randrange(8), r.randrange(2)))
        if r.random() < 0.3:
            k = r.randrange(8)
            g.ops.append("psend %d discack" % k)
        for k in range(8):
            g.ops.append("precv %d" % k)
    return g.ops


def amplify_case(r):
    """Spoofable addresses: valid, repeated, undersized, wrong-version or otherwise refused SYNs and stray frames
    of every other type; then waiting up to the handshake timeout. The oracle counts bytes per address."""
    g = Gen(r)
    scfg, sinfo = ec(r)
    g.ops.append("srvnew %d %d %d %s 0" % (r.choice([4096, 2]), r.choice([32, 1]), r.randrange(2), scfg))
    for k in range(4):
        g.ops.append("peer %d" % k)
    # variant: one address completes the first half of a handshake (full-size SYN) and then floods the server with
    # handshake ACKs carrying wrong nonces (9 bytes each); whatever the server answers to those adds up
    storm = r.randrange(4) if r.random() < 0.3 else None
    if storm is not None:
        g.nonce()
        g.ops.append("psend %d syn 3 %d 2000000 100 1000000" % (storm, r.randrange(U32)))
    for t in range(r.choice([5, 12, 25])):
        now = g.tick((0, 10, 500, 2000, 2100))
        if storm is not None:
            for _ in range(r.choice([10, 20, 30])):
                g.ops.append(r.choice(["psend %d hsack %d" % (storm, r.randrange(U32)),
                                       "psend %d hsack %d" % (storm, r.randrange(U32)),
                                       "psend %d sync %s %s" % (storm, r.choice(["-", "5"]), r.choice(["-", "6"])),
                                       "psend %d data %d 0 0" % (storm, r.randrange(U32)),
                                       "psend %d acks 1 2 0" % storm]))
        for _ in range(r.choice([1, 1, 2, 3])):
            k = r.randrange(4)
            a = r.random()
            if a < 0.4:
                g.nonce()
                v = r.choice([3, 3, 3, 2, 0])
                mps = r.choice([100, 100, U32 - 1]); mra = r.choice([1000000, 1000000, 0])
                g.ops.append("psend %d syn %d %d 2000000 %d %d" % (k, v, r.randrange(U32), mps, mra))
            elif a < 0.6:
                # undersized connection requests: type 0, version 3, nonce, limits, then too little (or no) padding;
                # with a correct CRC (psendfix) or as a truncated datagram with a stale CRC (psendraw)
                g.nonce()
                # ... of the server's version or of another one, possibly cut inside the header (type, version and
                # nonce are the first six bytes)
                body = "00%02x" % r.choice([3, 3, 3, 2, 0, 4, 255]) + "".join("%02x" % r.randrange(256) for _ in range(4)) + "001e8480" + "00000064" + "000f4240"
                cut = r.choice([None, None, 2, 6, 6, 10, 17])
                if cut is not None:
                    body = body[:2 * cut]
                else:
                    body += "00" * r.choice([0, 0, 1, 4, 100, 1000, 1449])
                g.ops.append("%s %d %s" % (r.choice(["psendfix", "psendfix", "psendraw"]), k, body))
            elif a < 0.8:
                g.ops.append(r.choice(["psend %d hsack %d" % (k, r.randrange(U32)), "psend %d disc" % k, "psend %d discack" % k,
                                       "psend %d sync 5 6" % k, "psend %d acks 1 2 0" % k,
                                       "psend %d hserr 1 1" % k, "psend %d synack 1 2 3 4 5" % k]))
            else:
                g.ops.append("psend %d data %d 0 1 5 0 0 0 0 0 aabb" % (k, r.randrange(U32)))
        g.ops.append("srvstep %d" % now)
        for k in range(4):
            g.ops.append("precv %d" % k)
    for t in range(13):
        now = g.tick((2000, 2100))
        g.ops.append("srvstep %d" % now)
        for k in range(4):
            g.ops.append("precv %d" % k)
    return g.ops


def idle_keepalive_case(r):
    """C10, keepalive clause: both ends with keepalive (interval 1 s or 5 s), active timeout 20 s, a loss-free
    relay, no application data, steps 0.5 to 3 s apart for several minutes: nobody may time out."""
    g = Gen(r)
    kai = r.choice([1000, 5000])
    ska, cka = r.choice([(1, 1), (1, 1), (1, 0), (0, 1)])      # keepalive on both ends, or on one only
    g.ops.append("srvnew 4096 32 %d 2000000 2000000 1448 100000 %d %d 20000 0" % (r.randrange(2), ska, kai))
    g.ops.append("peer 0")
    g.nonce()
    g.ops.append("clinew 0 0 2000000 2000000 1448 100000 %d %d 20000 0" % (cka, r.choice([1000, 5000])))
    for t in range(r.choice([90, 150])):
        now = g.tick((500, 1000, 2000, 3000))
        g.ops.append("clistep 0 %d" % now)
        g.ops.append("pfwd 0 0 0 1")
        g.nonce()
        g.ops.append("srvstep %d" % now)
        g.ops.append("pfwd 0 0 0 1")
    return g.ops


def timers_case(r):
    """Handshake and active timeouts: SYN / SYN-ACK lost 0..10 times, last frame at any time relative to steps,
    all step cadences, keepalive on or off, idle or busy connection."""
    if r.random() < 0.15:
        return idle_keepalive_case(r)
    g = Gen(r)
    ato = r.choice([3000, 5000, 20000])
    ka = r.randrange(2)
    scfg, sinfo = ec(r, ato=ato, ka=ka)
    g.ops.append("srvnew 4096 32 %d %s 0" % (r.randrange(2), scfg))
    g.ops.append("peer 0")
    g.nonce()
    ccfg, cinfo = ec(r, ato=ato, ka=ka)
    g.ops.append("clinew 0 0 %s 0" % ccfg)
    lose_first = r.choice([0, 0, 1, 2, 3, 9, 10, 11])     # how many of the client's first forwards are blacked out
    lose_back = r.choice([0, 0, 1, 2])
    fwd = 0
    blackout_from = r.choice([None, None, r.randrange(5, 40)])
    # variant: the server application disconnects soon after the handshake (whose ACK may have been lost a few
    # times) and the peer never answers: disconnect requests 2 s apart, Error(Timeout) after the budget only
    srv_disc = r.random() < 0.4
    lose_ack = 0
    disc_from = None
    answered = False
    if srv_disc:
        lose_first, lose_back, blackout_from = 0, 0, None
        lose_ack = r.choice([0, 1, 2, 3, 5])
        disc_from = lose_ack + r.choice([1, 1, 2, 3])
        # sub-variant: the peer does answer (the connection ends with Disconnect on both sides) and the server is
        # stepped for another 30 s: nothing more may be reported about that address
        answered = r.random() < 0.4
    n_iter = r.choice([20, 40, 80])
    t = 0
    end_ms = None
    while t < n_iter or (end_ms is not None and g.now < end_ms and t < 400):
        if srv_disc:
            now = g.tick((50, 100, 500, 1000, 2000, 2100) if t <= disc_from else (100, 500, 1000, 2000, 2100, 3000))
        else:
            now = g.tick((1, 50, 100, 500, 1000, 2000, 2100, 3000))
        if r.random() < 0.2:
            g.ops.append("clisend 0 %d %d %d %d" % (r.randrange(4), r.randrange(4), min(cinfo["mps"], r.choice([10, 100, 2000])), g.k)); g.k += 1
        g.ops.append("clistep 0 %d" % now)
        dark = (blackout_from is not None and t >= blackout_from) or (disc_from is not None and t >= disc_from and not answered)
        d = 1000 if (fwd < lose_first or dark or (1 <= t <= lose_ack)) else 0
        g.ops.append("pfwd 0 %d 0 1" % d)
        fwd += 1
        g.nonce()
        g.ops.append("srvstep %d" % now)
        if disc_from is not None and t >= disc_from:
            if end_ms is None:
                end_ms = now + 30000
                mode = r.randrange(2)
            if t < disc_from + 3:
                g.ops.append("srvdisc 0 %d" % mode)
        d2 = 1000 if (fwd <= lose_back or dark) else 0
        g.ops.append("pfwd 0 %d 0 1" % d2)
        t += 1
    return g.ops
