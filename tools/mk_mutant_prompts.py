#!/usr/bin/env python3
"""Creates scratch worktrees /tmp/<prefix>_<id> of /repo and the briefs given to the independent sub-agents that
seed breaking changes (property text only; nothing from /verif).  usage: mk_mutant_prompts.py <prefix> <id>[=avoid text] ..."""
import json, os, subprocess, sys
props = {json.loads(l)['id']: json.loads(l) for l in open('/verif/properties.jsonl')}
prefix = sys.argv[1]
os.makedirs('/tmp/mutprompts', exist_ok=True)
for arg in sys.argv[2:]:
    pid, _, av = arg.partition("=")
    wt = '/tmp/%s_%s' % (prefix, pid)
    subprocess.run(['git', '-C', '/repo', 'worktree', 'add', '-q', '--detach', wt, 'HEAD'], check=True)
    p = props[pid]
    text = "Title: %s\nStatement: %s\nQuantifier: %s\nWhy tests cannot settle it: %s\nAnchors (files): %s" % (
        p['title'], p['statement'], p['quantifier']['text'], p['why_tests_cant'], ", ".join(p['anchors']['files']))
    low = pid.lower()
    prompt = f"""You are working in a scratch git worktree of the Rust crate lowquark/uflow (a UDP transport library) at {wt}. Work ONLY inside that directory; do not read or touch /verif, /repo or any other path outside it.

Here is a semantic property that the library is supposed to satisfy:

{text}

Your task: produce a realistic change to the library's source (under src/) that BREAKS this property while the crate still compiles and the existing test suite still passes. The change should look like something a maintainer could plausibly commit (a refactor, an optimisation, an off-by-one, a reordered check, a forgotten case) and must break the property only under specific circumstances - not on every run. It must be a change of logic, not of a constant only.{(" It must NOT be " + av + " - those variants are already known; find a different place or mechanism.") if av else ""}

Then write a demonstration: a Rust unit test module (one file, `demo_{low}.rs`, placed next to the code it exercises and included with `#[cfg(test)] mod demo_{low};`) that FAILS with your change and PASSES on the unmodified code. Prefer driving the real components (HalfConnection pairs wired back to back with synthetic time, or Server/Client over loopback with explicit timestamps) over sleeping.

How to run things (no network is available; everything needed is cached):
- build/test: `CARGO_TARGET_DIR={wt}/target cargo test --offline --lib demo_{low}`
- full suite, in a private network namespace so that fixed ports do not clash with other runs: `CARGO_TARGET_DIR={wt}/target unshare -n sh -c 'ip link set lo up && cargo test --offline --no-fail-fast'`
- known flaky in this sandbox, unrelated to any change: the integration test `server_active_timeout`, and occasionally a doctest failing with AddrInUse.

Verify, and report what you ran: (1) the demo fails with your change; (2) after `git apply -R` of your patch the demo passes; (3) with the change, the full suite passes except the demo itself and the known-flaky items (run it at least twice).

Deliverables, in {wt}/out/ :
- patch.diff : the library change ONLY (no demo, no mod line), as produced by `git diff -- src/<changed files>` before adding the demo lines, applying cleanly to the unmodified tree (`git apply --check`);
- demo.rs : the demonstration test module;
- meta.json : {{"property": "{pid}", "summary": what the change is and why it breaks the property, "needs_to_manifest": the circumstances required, "files_changed": [...], "demo_location": where demo.rs goes and which `mod` line to add where, "demo_cmd": ..., "what_you_ran": [...]}}.
Leave the worktree with the patch and the demo applied, and delete {wt}/target when you are done. Finish with a short report."""
    open('/tmp/mutprompts/%s_%s.txt' % (prefix, pid), 'w').write(prompt)
    print(wt)
