#!/bin/bash
# usage: tools/confirm_mutant.sh <prefix> Cxx — in /tmp/<prefix>_Cxx (a scratch worktree with the seeded patch and its
# demo applied): demo with the patch (must fail), full suite with the patch in a private network namespace, demo
# without the patch (must pass). Writes out/confirm.txt there and removes the build output.
pre=$1; p=$2; low=$(echo $p | tr 'A-Z' 'a-z'); cd /tmp/${pre}_$p || exit 2
export CARGO_TARGET_DIR=/tmp/${pre}_$p/target CARGO_NET_OFFLINE=true
o=out/confirm.txt; : > $o
echo "## with patch: demo" >> $o
cargo test --offline --lib demo_$low 2>&1 | grep -E "^test |test result" >> $o
echo "## with patch: full suite (private network namespace)" >> $o
unshare -n sh -c 'ip link set lo up && cargo test --offline --no-fail-fast' 2>&1 | grep -E "^test .*FAILED|test result" >> $o
git apply -R out/patch.diff || echo "REVERSE APPLY FAILED" >> $o
echo "## without patch: demo" >> $o
cargo test --offline --lib demo_$low 2>&1 | grep -E "^test |test result" >> $o
git apply out/patch.diff
rm -rf target
