// Rate mode: drives a real SendRateComp.

use std::io::Write;
use std::panic;
use std::panic::AssertUnwindSafe;

use super::uv;

pub struct State {
    comp: Option<uv::SendRateComp>,
    poisoned: bool,
}

impl State {
    pub fn new() -> Self {
        Self { comp: None, poisoned: false }
    }

    pub fn reset(&mut self) {
        if self.poisoned {
            if let Some(c) = self.comp.take() { std::mem::forget(c); }
        }
        self.comp = None;
        self.poisoned = false;
    }

    pub fn op(&mut self, toks: &[&str], out: &mut impl Write) {
        let n = |s: &str| -> u64 { s.parse::<u64>().expect("bad number") };
        if toks[0] == "srnew" {
            self.comp = Some(uv::SendRateComp::new(n(toks[1]) as u32));
            self.poisoned = false;
            writeln!(out, "sr {}", self.comp.as_ref().unwrap().verif_dump()).unwrap();
            return;
        }
        if toks[0] == "tput" {
            let rtt = f64::from_bits(u64::from_str_radix(toks[1], 16).unwrap());
            let p = f64::from_bits(u64::from_str_radix(toks[2], 16).unwrap());
            writeln!(out, "tput {}", uv::SendRateComp::verif_tcp_throughput(rtt, p)).unwrap();
            return;
        }
        if self.poisoned || self.comp.is_none() {
            writeln!(out, "skipped").unwrap();
            return;
        }
        let comp = self.comp.as_mut().unwrap();
        let mut reset: Option<f64> = None;
        let r = panic::catch_unwind(AssertUnwindSafe(|| {
            match toks[0] {
                "srsent" => comp.notify_frame_sent(n(toks[1])),
                "srstep" => {
                    let fb = if toks[2] == "-" { None } else {
                        Some(uv::FeedbackData {
                            rtt_ms: n(toks[2]),
                            receive_rate: n(toks[3]) as u32,
                            loss_rate: f64::from_bits(u64::from_str_radix(toks[4], 16).unwrap()),
                            rate_limited: toks[5] == "1",
                        })
                    };
                    comp.step(n(toks[1]), fb, |p: f64| { reset = Some(p); });
                }
                _ => panic!("bad rate op"),
            }
        }));
        match r {
            Ok(()) => {
                let rs = match reset { Some(p) => format!("{:016x}", p.to_bits()), None => "-".to_string() };
                writeln!(out, "sr reset={} {}", rs, comp.verif_dump()).unwrap();
            }
            Err(_) => {
                self.poisoned = true;
                writeln!(out, "PANIC").unwrap();
            }
        }
    }
}
