// Half-connection mode: drives up to four real HalfConnection objects with the virtual clock.

use std::io::Write;
use std::panic;
use std::panic::AssertUnwindSafe;

use super::fr;
use super::spec;
use super::uv;
use super::Serialize;

struct Sink {
    frames: Vec<Vec<u8>>,
}

impl uv::FrameSink for Sink {
    fn send(&mut self, frame_data: &[u8]) {
        self.frames.push(frame_data.to_vec());
    }
}

struct PSink {
    packets: Vec<Box<[u8]>>,
}

impl uv::PacketSink for PSink {
    fn send(&mut self, packet_data: Box<[u8]>) {
        self.packets.push(packet_data);
    }
}

struct Endpoint {
    hc: uv::HalfConnection,
    outbox: Vec<Vec<u8>>,
    cursor: usize,
    poisoned: bool,
}

// The fates of relayed frames come from this generator (same in driver/main.ml)
fn lcg(x: &mut u64) -> u64 {
    *x = (x.wrapping_mul(1103515245).wrapping_add(12345)) % 2147483648;
    *x
}

// Which frames of `n` new ones are delivered, in which order
pub fn relay_plan(n: usize, drop: u64, dup: u64, swap: u64, seed: u64) -> Vec<usize> {
    let mut x = seed % 2147483648;
    let mut plan = Vec::new();
    let mut i = 0;
    while i < n {
        let r = lcg(&mut x) % 1000;
        if r < drop {
            i += 1;
        } else if r < drop + dup {
            plan.push(i); plan.push(i); i += 1;
        } else if r < drop + dup + swap && i + 1 < n {
            plan.push(i + 1); plan.push(i); i += 2;
        } else {
            plan.push(i); i += 1;
        }
    }
    plan
}

pub struct State {
    eps: Vec<Option<Endpoint>>,
}

pub fn payload(len: usize, seed: u32) -> Box<[u8]> {
    (0..len).map(|i| (seed.wrapping_mul(31).wrapping_add((i as u32).wrapping_mul(7)).wrapping_add((i as u32) >> 8) & 0xFF) as u8)
        .collect::<Vec<u8>>().into_boxed_slice()
}

fn mode_of(s: &str) -> uflow::SendMode {
    match s {
        "0" => uflow::SendMode::TimeSensitive,
        "1" => uflow::SendMode::Unreliable,
        "2" => uflow::SendMode::Persistent,
        _ => uflow::SendMode::Reliable,
    }
}

impl State {
    pub fn new() -> Self {
        Self { eps: vec![None, None, None, None] }
    }

    pub fn reset(&mut self) {
        // objects of a panicked case may be in an arbitrary state: leak them rather than drop
        for e in self.eps.iter_mut() {
            if let Some(ep) = e.take() {
                if ep.poisoned {
                    std::mem::forget(ep);
                }
            }
        }
        uv::enable_clock(true);
        uv::set_now_ms(0);
        uv::set_nonce_seed(Some(0));
    }

    fn handle(ep: &mut Endpoint, f: fr::Frame) -> &'static str {
        match f {
            fr::Frame::DataFrame(x) => { ep.hc.handle_data_frame(x); "data" }
            fr::Frame::SyncFrame(x) => { ep.hc.handle_sync_frame(x); "sync" }
            fr::Frame::AckFrame(x) => { ep.hc.handle_ack_frame(x); "ack" }
            _ => "ignored",
        }
    }

    pub fn op(&mut self, toks: &[&str], out: &mut impl Write) {
        let n = |s: &str| -> u64 { s.parse::<u64>().expect("bad number") };
        match toks[0] {
            "seed" => { uv::set_nonce_seed(Some(n(toks[1]) as u32)); return; }
            "hcnew" => {
                let e = n(toks[1]) as usize;
                let cfg = uv::HalfConnectionConfig {
                    tx_frame_base_id: n(toks[2]) as u32,
                    rx_frame_base_id: n(toks[3]) as u32,
                    tx_frame_window_size: n(toks[4]) as u32,
                    rx_frame_window_size: n(toks[5]) as u32,
                    tx_packet_base_id: n(toks[6]) as u32,
                    rx_packet_base_id: n(toks[7]) as u32,
                    tx_packet_window_size: n(toks[8]) as u32,
                    rx_packet_window_size: n(toks[9]) as u32,
                    tx_bandwidth_limit: n(toks[10]) as u32,
                    tx_alloc_limit: n(toks[11]) as usize,
                    rx_alloc_limit: n(toks[12]) as usize,
                    keepalive_interval_ms: if toks[13] == "-" { None } else { Some(n(toks[13])) },
                };
                uv::set_now_ms(n(toks[14]));
                self.eps[e] = Some(Endpoint { hc: uv::HalfConnection::new(cfg), outbox: Vec::new(), cursor: 0, poisoned: false });
                writeln!(out, "new {}", e).unwrap();
                return;
            }
            _ => {}
        }
        // every other op names an endpoint as its first argument (deliver: the destination is last)
        let e = if toks[0] == "deliver" || toks[0] == "replayack" { n(toks[3]) as usize } else if toks[0] == "relay" { n(toks[2]) as usize } else { n(toks[1]) as usize };
        if self.eps[e].as_ref().map_or(true, |ep| ep.poisoned) {
            writeln!(out, "skipped").unwrap();
            return;
        }
        // frames to deliver come from another endpoint's outbox
        let delivered: Option<Vec<u8>> = if toks[0] == "deliver" {
            let src = n(toks[1]) as usize;
            let k = n(toks[2]) as usize;
            match self.eps[src].as_ref() {
                Some(s) if !s.outbox.is_empty() => Some(s.outbox[k % s.outbox.len()].clone()),
                _ => None,
            }
        } else if toks[0] == "replayack" {
            // the k-th ack frame (type id 12) the source has emitted so far
            let src = n(toks[1]) as usize;
            let k = n(toks[2]) as usize;
            match self.eps[src].as_ref() {
                Some(s) => {
                    let acks: Vec<&Vec<u8>> = s.outbox.iter().filter(|f| !f.is_empty() && f[0] == 12).collect();
                    if acks.is_empty() { None } else { Some(acks[k % acks.len()].clone()) }
                }
                None => None,
            }
        } else { None };
        let relayed: Vec<Vec<u8>> = if toks[0] == "relay" {
            let src = n(toks[1]) as usize;
            match self.eps[src].as_mut() {
                Some(s) => {
                    let fresh: Vec<Vec<u8>> = s.outbox[s.cursor..].to_vec();
                    s.cursor = s.outbox.len();
                    relay_plan(fresh.len(), n(toks[3]), n(toks[4]), n(toks[5]), n(toks[6])).into_iter().map(|i| fresh[i].clone()).collect()
                }
                None => Vec::new(),
            }
        } else { Vec::new() };
        let ep = self.eps[e].as_mut().unwrap();
        let mut lines: Vec<String> = Vec::new();
        let r = panic::catch_unwind(AssertUnwindSafe(|| {
            match toks[0] {
                "send" => {
                    let data = payload(n(toks[4]) as usize, n(toks[5]) as u32);
                    lines.push(format!("sent {} {} {} {}", toks[2], toks[3], data.len(), uv::crc_compute(&data)));
                    ep.hc.send(data, n(toks[2]) as u8, mode_of(toks[3]));
                }
                "step" => {
                    uv::set_now_ms(n(toks[2]));
                    ep.hc.step();
                }
                "flush" => {
                    let mut sink = Sink { frames: Vec::new() };
                    // frames emitted before a panic are still observed
                    let r = panic::catch_unwind(AssertUnwindSafe(|| ep.hc.flush(&mut sink)));
                    for f in sink.frames.iter() {
                        lines.push(format!("frame {} {}", f.len(), spec::hex_of(f)));
                        if let Some(fr::Frame::DataFrame(df)) = fr::Frame::read(f) {
                            for d in df.datagrams.iter() {
                                lines.push(format!("dg {} {} {} {} {} {}", d.sequence_id, d.fragment_id, d.fragment_id_last, d.channel_id, d.data.len(), uv::crc_compute(&d.data)));
                            }
                        }
                    }
                    ep.outbox.extend(sink.frames.into_iter());
                    if let Err(p) = r { panic::resume_unwind(p); }
                }
                "recv" => {
                    let mut sink = PSink { packets: Vec::new() };
                    let r = panic::catch_unwind(AssertUnwindSafe(|| ep.hc.receive(&mut sink)));
                    for p in sink.packets.iter() {
                        lines.push(format!("pkt {} {}", p.len(), uv::crc_compute(p)));
                    }
                    if let Err(p) = r { panic::resume_unwind(p); }
                }
                "deliver" | "replayack" => {
                    match delivered {
                        None => lines.push("deliver: nothing".to_string()),
                        Some(ref bytes) => match fr::Frame::read(bytes) {
                            None => lines.push("deliver: unreadable".to_string()),
                            Some(f) => { let k = Self::handle(ep, f); lines.push(format!("deliver: {}", k)); }
                        }
                    }
                }
                "relay" => {
                    let mut kinds = String::new();
                    for bytes in relayed.iter() {
                        match fr::Frame::read(bytes) {
                            None => kinds.push('u'),
                            Some(f) => { let k = Self::handle(ep, f); kinds.push(k.chars().next().unwrap()); }
                        }
                    }
                    lines.push(format!("relay: {} {}", relayed.len(), kinds));
                }
                "raw" => {
                    let bytes = spec::bytes_of_hex(toks[2]);
                    match fr::Frame::read(&bytes) {
                        None => lines.push("raw: unreadable".to_string()),
                        Some(f) => { let k = Self::handle(ep, f); lines.push(format!("raw: {}", k)); }
                    }
                }
                "frame" => {
                    let f = spec::parse_frame(&toks[2..]);
                    let k = Self::handle(ep, f);
                    lines.push(format!("frame: {}", k));
                }
                "credit" => {
                    ep.hc.verif_set_flush_alloc(toks[2].parse::<isize>().unwrap());
                }
                "dump" => {}
                _ => panic!("bad hc op"),
            }
        }));
        for l in lines {
            writeln!(out, "{}", l).unwrap();
        }
        match r {
            Ok(()) => {
                writeln!(out, "st sbs={} pend={} | {}", ep.hc.send_buffer_size(), ep.hc.is_send_pending() as u8, ep.hc.verif_dump()).unwrap();
            }
            Err(_) => {
                ep.poisoned = true;
                writeln!(out, "PANIC").unwrap();
            }
        }
    }
}
