use std::io::Write;
use std::panic;

use super::fr;
use super::spec;
use super::uv;
use super::Serialize;

fn print_read(bytes: &[u8], out: &mut impl Write) {
    let r = panic::catch_unwind(|| fr::Frame::read(bytes));
    match r {
        Ok(None) => writeln!(out, "read: none").unwrap(),
        Ok(Some(f)) => writeln!(out, "read: {}", spec::frame_to_string(&f)).unwrap(),
        Err(_) => writeln!(out, "read: PANIC").unwrap(),
    }
}

fn with_crc(body: &[u8]) -> Vec<u8> {
    let crc = uv::crc_compute(body);
    let mut v = body.to_vec();
    v.extend_from_slice(&[(crc >> 24) as u8, (crc >> 16) as u8, (crc >> 8) as u8, crc as u8]);
    v
}

// Splits "… | …" into the part before and after the bar.
fn split_bar<'a>(toks: &'a [&'a str]) -> (&'a [&'a str], &'a [&'a str]) {
    let i = toks.iter().position(|t| *t == "|").expect("missing |");
    (&toks[..i], &toks[i + 1..])
}

pub fn op(toks: &[&str], out: &mut impl Write) {
    match toks[0] {
        "read" => {
            let bytes = spec::bytes_of_hex(toks[1]);
            print_read(&bytes, out);
        }
        // read <body hex> with a freshly computed, correct CRC appended
        "readfix" => {
            let body = spec::bytes_of_hex(toks[1]);
            print_read(&with_crc(&body), out);
        }
        "write" => {
            let f = spec::parse_frame(&toks[1..]);
            let r = panic::catch_unwind(|| f.write());
            match r {
                Ok(bytes) => writeln!(out, "write: {}", spec::hex_of(&bytes)).unwrap(),
                Err(_) => writeln!(out, "write: PANIC").unwrap(),
            }
        }
        // round trip: write then read back
        "rt" => {
            let f = spec::parse_frame(&toks[1..]);
            let r = panic::catch_unwind(|| f.write());
            match r {
                Ok(bytes) => {
                    writeln!(out, "write: {} {}", bytes.len(), spec::hex_of(&bytes)).unwrap();
                    print_read(&bytes, out);
                }
                Err(_) => writeln!(out, "write: PANIC").unwrap(),
            }
        }
        // flip <k> <p1> .. <pk> | <frame spec>   (bit positions taken modulo 8*len)
        "flip" => {
            let (a, b) = split_bar(&toks[1..]);
            let f = spec::parse_frame(b);
            let mut bytes = f.write().to_vec();
            let nbits = bytes.len() * 8;
            let mut pos = Vec::new();
            for t in a[1..].iter() {
                let p = t.parse::<usize>().unwrap() % nbits;
                if !pos.contains(&p) {
                    pos.push(p);
                    bytes[p / 8] ^= 1 << (p % 8);
                }
            }
            pos.sort();
            writeln!(out, "flip: {} {:?}", bytes.len(), pos).unwrap();
            print_read(&bytes, out);
        }
        // flipend <k> <q1> .. <qk> | <frame spec>   (bit positions counted back from the last bit of the frame)
        "flipend" => {
            let (a, b) = split_bar(&toks[1..]);
            let f = spec::parse_frame(b);
            let mut bytes = f.write().to_vec();
            let nbits = bytes.len() * 8;
            let mut pos = Vec::new();
            for t in a[1..].iter() {
                let p = nbits - 1 - (t.parse::<usize>().unwrap() % nbits);
                if !pos.contains(&p) {
                    pos.push(p);
                    bytes[p / 8] ^= 1 << (p % 8);
                }
            }
            pos.sort();
            writeln!(out, "flip: {} {:?}", bytes.len(), pos).unwrap();
            print_read(&bytes, out);
        }
        // mutfix <kind> <args..> | <frame spec> : mutate the body (frame minus CRC), re-CRC, read
        "mutfix" => {
            let (a, b) = split_bar(&toks[1..]);
            let f = spec::parse_frame(b);
            let full = f.write().to_vec();
            let mut body = full[..full.len() - 4].to_vec();
            match a[0] {
                "trunc" => { let n = a[1].parse::<usize>().unwrap().min(body.len()); body.truncate(body.len() - n); }
                "append" => { body.extend_from_slice(&spec::bytes_of_hex(a[1])); }
                "set" => { let i = a[1].parse::<usize>().unwrap() % body.len(); body[i] = a[2].parse::<u8>().unwrap(); }
                "none" => {}
                _ => panic!("bad mutation"),
            }
            writeln!(out, "mutfix: {} {}", body.len(), spec::hex_of(&body[..body.len().min(24)])).unwrap();
            print_read(&with_crc(&body), out);
        }
        "crc" => {
            let bytes = spec::bytes_of_hex(toks[1]);
            writeln!(out, "crc: {}", uv::crc_compute(&bytes)).unwrap();
        }
        _ => panic!("bad codec op"),
    }
}
