// Correspondence harness: runs the real uflow code (built with --cfg uflow_verif) on a script and
// prints one observation line per operation, in the same format as the OCaml model driver.

use std::io::BufRead;
use std::io::Write;
use std::panic;

use uflow::verif as uv;
use uv::frames as fr;
use uv::Serialize;

mod spec;
mod codec;

fn main() {
    let args: Vec<String> = std::env::args().collect();
    let mode = args.get(1).map(|s| s.as_str()).unwrap_or("codec").to_string();

    // Panics are observations, not crashes: silence the default hook.
    panic::set_hook(Box::new(|_| {}));

    let stdin = std::io::stdin();
    let input: Box<dyn BufRead> = match args.get(2) {
        Some(path) => Box::new(std::io::BufReader::new(std::fs::File::open(path).expect("open script"))),
        None => Box::new(stdin.lock()),
    };

    let stdout = std::io::stdout();
    let mut out = std::io::BufWriter::with_capacity(1 << 20, stdout.lock());

    for line in input.lines() {
        let line = line.expect("read line");
        let toks: Vec<&str> = line.split_whitespace().collect();
        if toks.is_empty() {
            continue;
        }
        if toks[0] == "case" {
            writeln!(out, "{}", line).unwrap();
            continue;
        }
        match mode.as_str() {
            "codec" => codec::op(&toks, &mut out),
            _ => panic!("unknown mode"),
        }
    }
    out.flush().unwrap();
}
