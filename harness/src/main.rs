// Correspondence harness: runs the real uflow code (built with --cfg uflow_verif) on a script and
// prints one observation line per operation, in the same format as the OCaml model driver.

use std::io::BufRead;
use std::io::Write;
use std::panic;

use uflow::verif as uv;
use uv::frames as fr;
use uv::Serialize;

mod spec;
mod codec;
mod memcheck;

#[global_allocator]
static GLOBAL: memcheck::Checking = memcheck::Checking;
mod hc;
mod rate;
mod ep;

fn main() {
    let args: Vec<String> = std::env::args().collect();
    let mode = args.get(1).map(|s| s.as_str()).unwrap_or("codec").to_string();

    // Panics are observations, not crashes: silence the default hook.
    if std::env::var("VERIF_PANIC_MSG").is_err() { panic::set_hook(Box::new(|_| {})); }

    let stdin = std::io::stdin();
    let input: Box<dyn BufRead> = match args.get(2) {
        Some(path) => Box::new(std::io::BufReader::new(std::fs::File::open(path).expect("open script"))),
        None => Box::new(stdin.lock()),
    };

    let stdout = std::io::stdout();
    let mut out = std::io::BufWriter::with_capacity(1 << 20, stdout.lock());

    let mem_report = std::env::var("VERIF_MEM").is_ok();
    let mut hc_state = hc::State::new();
    let mut rate_state = rate::State::new();
    let mut ep_state = ep::State::new();

    // Hang watchdog: a script line that makes no progress for HANG_MS is reported and the process
    // exits with code 3 (the orchestrator restarts the remaining cases).
    let progress = std::sync::Arc::new(std::sync::atomic::AtomicU64::new(0));
    {
        let progress = progress.clone();
        std::thread::spawn(move || {
            let mut last = 0u64;
            let mut stuck_ms = 0u64;
            loop {
                std::thread::sleep(std::time::Duration::from_millis(100));
                let cur = progress.load(std::sync::atomic::Ordering::Relaxed);
                if cur == u64::MAX { return; }
                if cur == last { stuck_ms += 100; } else { stuck_ms = 0; last = cur; }
                if stuck_ms >= 4000 {
                    // stdout is locked by the main thread; write the marker to fd 1 directly after its buffer is lost.
                    eprintln!("HANG");
                    std::process::exit(3);
                }
            }
        });
    }

    for line in input.lines() {
        let line = line.expect("read line");
        let toks: Vec<&str> = line.split_whitespace().collect();
        if toks.is_empty() {
            continue;
        }
        progress.fetch_add(1, std::sync::atomic::Ordering::Relaxed);
        if toks[0] == "case" {
            writeln!(out, "{}", line).unwrap();
            hc_state.reset();
            rate_state.reset();
            if mode == "ep" { ep_state.reset(); }
            if mem_report {
                writeln!(out, "mem live={} mismatches={} {}", memcheck::live_bytes(), memcheck::mismatches(), memcheck::first_mismatch()).unwrap();
            }
            continue;
        }
        // flush before each op so that everything observed before a hang is kept
        if mode != "codec" { out.flush().unwrap(); }
        match mode.as_str() {
            "codec" => codec::op(&toks, &mut out),
            "hc" => hc_state.op(&toks, &mut out),
            "rate" => rate_state.op(&toks, &mut out),
            "ep" => ep_state.op(&toks, &mut out),
            _ => panic!("unknown mode"),
        }
    }
    out.flush().unwrap();
    progress.store(u64::MAX, std::sync::atomic::Ordering::Relaxed);
}
