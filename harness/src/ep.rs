// Endpoint mode: a real Server, real Clients and raw UDP "peer" sockets on the loopback interface,
// driven with the virtual clock and preset handshake nonces.

use std::collections::HashMap;
use std::io::Write;
use std::net::{SocketAddr, UdpSocket};
use std::panic;
use std::panic::AssertUnwindSafe;

use super::fr;
use super::hc;
use super::spec;
use super::uv;
use super::Serialize;

use uflow::client;
use uflow::server;

struct Peer {
    sock: UdpSocket,
    client: Option<usize>,
}

struct Cli {
    c: client::Client,
    poisoned: bool,
}

pub struct State {
    server: Option<server::Server>,
    server_addr: Option<SocketAddr>,
    server_poisoned: bool,
    peers: Vec<Option<Peer>>,
    clients: Vec<Option<Cli>>,
    index: HashMap<u16, usize>,   // port -> address index (peer k = k, client j = 100 + j)
}

fn settle() {
    std::thread::sleep(std::time::Duration::from_micros(400));
}

fn kind_char(bytes: &[u8]) -> char {
    if bytes.is_empty() { return '?'; }
    match bytes[0] { 0 => 's', 1 => 'S', 2 => 'a', 3 => 'e', 4 => 'd', 5 => 'D', 10 => 'x', 11 => 'y', 12 => 'k', _ => '?' }
}

fn endpoint_config(t: &[&str]) -> uflow::EndpointConfig {
    let n = |s: &str| -> usize { s.parse::<usize>().expect("bad number") };
    uflow::EndpointConfig {
        max_send_rate: n(t[0]), max_receive_rate: n(t[1]), max_packet_size: n(t[2]), max_receive_alloc: n(t[3]),
        keepalive: t[4] == "1", keepalive_interval_ms: n(t[5]) as u64, active_timeout_ms: n(t[6]) as u64,
    }
}

fn mode_of(s: &str) -> uflow::SendMode {
    match s { "0" => uflow::SendMode::TimeSensitive, "1" => uflow::SendMode::Unreliable, "2" => uflow::SendMode::Persistent, _ => uflow::SendMode::Reliable }
}

fn err_name(k: u32) -> &'static str { match k { 0 => "timeout", 1 => "version", 2 => "config", _ => "full" } }

impl State {
    pub fn new() -> Self {
        Self { server: None, server_addr: None, server_poisoned: false, peers: (0..8).map(|_| None).collect(),
               clients: (0..4).map(|_| None).collect(), index: HashMap::new() }
    }

    pub fn reset(&mut self) {
        if self.server_poisoned { if let Some(s) = self.server.take() { std::mem::forget(s); } }
        self.server = None;
        self.server_addr = None;
        self.server_poisoned = false;
        for p in self.peers.iter_mut() { *p = None; }
        for c in self.clients.iter_mut() {
            if let Some(cl) = c.take() { if cl.poisoned { std::mem::forget(cl); } }
        }
        self.index.clear();
        uv::enable_clock(true);
        uv::set_now_ms(0);
        uv::set_nonce_seed(Some(0));
        uv::clear_nonces();
    }

    fn idx(&self, a: &SocketAddr) -> usize { *self.index.get(&a.port()).unwrap_or(&999) }

    fn server_dump(&self) -> String {
        let s = self.server.as_ref().unwrap();
        let raw = s.verif_dump();
        let mut head: Vec<&str> = Vec::new();
        let mut parts: Vec<(usize, String)> = Vec::new();
        // entries look like "<port>=<state>"; an Active state contains spaces inside [...]
        let mut rest = raw.as_str();
        for _ in 0..3 {
            let i = rest.find(' ').unwrap_or(rest.len());
            head.push(&rest[..i]);
            rest = if i < rest.len() { &rest[i + 1..] } else { "" };
        }
        let mut cur = String::new();
        let mut depth = 0;
        for ch in rest.chars() {
            if ch == '[' { depth += 1; }
            if ch == ']' { depth -= 1; }
            if ch == ' ' && depth == 0 {
                if !cur.is_empty() { parts.push(Self::split_entry(&self.index, &cur)); cur.clear(); }
            } else { cur.push(ch); }
        }
        if !cur.is_empty() { parts.push(Self::split_entry(&self.index, &cur)); }
        parts.sort();
        let body: Vec<String> = parts.into_iter().map(|(k, v)| format!("{}={}", k, v)).collect();
        format!("{} {}", head.join(" "), body.join(" ")).trim_end().to_string()
    }

    fn split_entry(index: &HashMap<u16, usize>, e: &str) -> (usize, String) {
        let i = e.find('=').unwrap();
        let port: u16 = e[..i].parse().unwrap();
        (*index.get(&port).unwrap_or(&999), e[i + 1..].to_string())
    }

    fn print_server_events(&self, events: Vec<server::Event>, out: &mut impl Write) {
        for ev in events {
            match ev {
                server::Event::Connect(a) => writeln!(out, "ev connect {}", self.idx(&a)).unwrap(),
                server::Event::Disconnect(a) => writeln!(out, "ev disconnect {}", self.idx(&a)).unwrap(),
                server::Event::Receive(a, d) => writeln!(out, "ev receive {} {} {}", self.idx(&a), d.len(), uv::crc_compute(&d)).unwrap(),
                server::Event::Error(a, e) => writeln!(out, "ev error {} {}", self.idx(&a), err_name(match e {
                    server::ErrorType::Timeout => 0, server::ErrorType::Version => 1, server::ErrorType::Config => 2, server::ErrorType::ServerFull => 3 })).unwrap(),
            }
        }
    }

    pub fn op(&mut self, toks: &[&str], out: &mut impl Write) {
        let n = |s: &str| -> u64 { s.parse::<u64>().expect("bad number") };
        match toks[0] {
            "seed" => { uv::set_nonce_seed(Some(n(toks[1]) as u32)); }
            "nonce" => { uv::push_nonce_u32(n(toks[1]) as u32); }
            "srvnew" => {
                uv::set_now_ms(n(toks[11]));
                let cfg = server::Config {
                    max_total_connections: n(toks[1]) as usize, max_active_connections: n(toks[2]) as usize,
                    enable_handshake_errors: toks[3] == "1", endpoint_config: endpoint_config(&toks[4..11]),
                };
                let s = server::Server::bind("127.0.0.1:0", cfg).expect("bind server");
                self.server_addr = Some(s.address());
                self.server = Some(s);
                writeln!(out, "st {}", self.server_dump()).unwrap();
            }
            "peer" => {
                let k = n(toks[1]) as usize;
                let sock = UdpSocket::bind("127.0.0.1:0").expect("bind peer");
                sock.set_nonblocking(true).unwrap();
                self.index.insert(sock.local_addr().unwrap().port(), k);
                self.peers[k] = Some(Peer { sock, client: None });
                writeln!(out, "new peer {}", k).unwrap();
            }
            "psend" | "psendraw" | "psendfix" | "psendc" => {
                let k = n(toks[1]) as usize;
                let bytes: Vec<u8> = if toks[0] == "psendraw" { spec::bytes_of_hex(toks[2]) }
                    else if toks[0] == "psendfix" {
                        // body bytes followed by their correct CRC
                        let mut b = spec::bytes_of_hex(toks[2]);
                        let crc = uv::crc_compute(&b);
                        b.extend_from_slice(&[(crc >> 24) as u8, (crc >> 16) as u8, (crc >> 8) as u8, crc as u8]);
                        b
                    } else { spec::parse_frame(&toks[2..]).write().to_vec() };
                let p = self.peers[k].as_ref().expect("no such peer");
                if toks[0] == "psendc" {
                    if let Some(j) = p.client {
                        if let Some(cl) = self.clients[j].as_ref() { let _ = p.sock.send_to(&bytes, cl.c.local_address()); }
                    }
                } else if let Some(sa) = self.server_addr {
                    let _ = p.sock.send_to(&bytes, sa);
                }
                settle();
                writeln!(out, "new sent {}", bytes.len()).unwrap();
            }
            "pfwd" | "precv" => {
                let k = n(toks[1]) as usize;
                let mut got: Vec<(SocketAddr, Vec<u8>)> = Vec::new();
                {
                    let p = self.peers[k].as_ref().expect("no such peer");
                    let mut buf = [0u8; 2048];
                    while let Ok((sz, from)) = p.sock.recv_from(&mut buf) { got.push((from, buf[..sz].to_vec())); }
                }
                for (from, b) in got.iter() {
                    let src = if Some(*from) == self.server_addr { "S".to_string() } else { format!("{}", self.idx(from)) };
                    writeln!(out, "dgram {} {} {} {}", src, b.len(), uv::crc_compute(b), kind_char(b)).unwrap();
                }
                if toks[0] == "pfwd" {
                    let plan = hc::relay_plan(got.len(), n(toks[2]), n(toks[3]), 0, n(toks[4]));
                    let p = self.peers[k].as_ref().unwrap();
                    let mut kinds = String::new();
                    for i in plan {
                        let (from, b) = &got[i];
                        if Some(*from) == self.server_addr {
                            if let Some(j) = p.client { if let Some(cl) = self.clients[j].as_ref() { let _ = p.sock.send_to(b, cl.c.local_address()); } }
                        } else if let Some(sa) = self.server_addr {
                            let _ = p.sock.send_to(b, sa);
                        }
                        kinds.push(kind_char(b));
                    }
                    settle();
                    writeln!(out, "new fwd {}", kinds).unwrap();
                } else {
                    writeln!(out, "new recv {}", got.len()).unwrap();
                }
            }
            "srvstep" | "srvflush" | "srvsend" | "srvdisc" | "srvdrop" => {
                if self.server.is_none() || self.server_poisoned { writeln!(out, "skipped").unwrap(); return; }
                settle();
                let addr_of = |this: &State, a: usize| -> Option<SocketAddr> {
                    if a >= 100 { this.clients[a - 100].as_ref().map(|c| c.c.local_address()) }
                    else { this.peers[a].as_ref().map(|p| p.sock.local_addr().unwrap()) }
                };
                let target = if toks[0] == "srvsend" || toks[0] == "srvdisc" || toks[0] == "srvdrop" { addr_of(self, n(toks[1]) as usize) } else { None };
                let mut events: Vec<server::Event> = Vec::new();
                let r = {
                    let s = self.server.as_mut().unwrap();
                    panic::catch_unwind(AssertUnwindSafe(|| {
                        match toks[0] {
                            "srvstep" => { uv::set_now_ms(n(toks[1])); events = s.step().collect(); }
                            "srvflush" => { s.flush(); }
                            "srvsend" => {
                                if let Some(a) = target { if let Some(c) = s.client(&a) {
                                    c.borrow_mut().send(hc::payload(n(toks[4]) as usize, n(toks[5]) as u32), n(toks[2]) as usize, mode_of(toks[3]));
                                } }
                            }
                            "srvdisc" => {
                                if let Some(a) = target { if let Some(c) = s.client(&a) {
                                    if toks[2] == "1" { c.borrow_mut().disconnect_now(); } else { c.borrow_mut().disconnect(); }
                                } }
                            }
                            "srvdrop" => { if let Some(a) = target { s.drop(&a); } }
                            _ => {}
                        }
                    }))
                };
                settle();
                self.print_server_events(events, out);
                match r {
                    Ok(()) => writeln!(out, "st {}", self.server_dump()).unwrap(),
                    Err(_) => { self.server_poisoned = true; writeln!(out, "PANIC").unwrap(); }
                }
            }
            "clinew" => {
                let j = n(toks[1]) as usize;
                uv::set_now_ms(n(toks[10]));
                let target: SocketAddr = if toks[2] == "srv" { self.server_addr.expect("no server") }
                                         else { self.peers[n(toks[2]) as usize].as_ref().unwrap().sock.local_addr().unwrap() };
                let cfg = client::Config { endpoint_config: endpoint_config(&toks[3..10]) };
                let c = client::Client::connect(target, cfg).expect("connect");
                self.index.insert(c.local_address().port(), 100 + j);
                if toks[2] != "srv" { self.peers[n(toks[2]) as usize].as_mut().unwrap().client = Some(j); }
                settle();
                writeln!(out, "st {}", c.verif_dump()).unwrap();
                self.clients[j] = Some(Cli { c, poisoned: false });
            }
            "clistep" | "cliflush" | "clisend" | "clidisc" => {
                let j = n(toks[1]) as usize;
                if self.clients[j].as_ref().map_or(true, |c| c.poisoned) { writeln!(out, "skipped").unwrap(); return; }
                settle();
                let cl = self.clients[j].as_mut().unwrap();
                let mut events: Vec<client::Event> = Vec::new();
                let r = panic::catch_unwind(AssertUnwindSafe(|| {
                    match toks[0] {
                        "clistep" => { uv::set_now_ms(n(toks[2])); events = cl.c.step().collect(); }
                        "cliflush" => { cl.c.flush(); }
                        "clisend" => { cl.c.send(hc::payload(n(toks[4]) as usize, n(toks[5]) as u32), n(toks[2]) as usize, mode_of(toks[3])); }
                        "clidisc" => { if toks[2] == "1" { cl.c.disconnect_now(); } else { cl.c.disconnect(); } }
                        _ => {}
                    }
                }));
                settle();
                for ev in events {
                    match ev {
                        client::Event::Connect => writeln!(out, "ev connect 0").unwrap(),
                        client::Event::Disconnect => writeln!(out, "ev disconnect 0").unwrap(),
                        client::Event::Receive(d) => writeln!(out, "ev receive 0 {} {}", d.len(), uv::crc_compute(&d)).unwrap(),
                        client::Event::Error(e) => writeln!(out, "ev error 0 {}", err_name(match e {
                            client::ErrorType::Timeout => 0, client::ErrorType::Version => 1, client::ErrorType::Config => 2, client::ErrorType::ServerFull => 3 })).unwrap(),
                    }
                }
                match r {
                    Ok(()) => writeln!(out, "st sbs={} {}", cl.c.send_buffer_size(), cl.c.verif_dump()).unwrap(),
                    Err(_) => { cl.poisoned = true; writeln!(out, "PANIC").unwrap(); }
                }
            }
            _ => panic!("bad ep op {}", toks[0]),
        }
    }
}
