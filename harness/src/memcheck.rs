// A checking global allocator: remembers the layout of every block in a header in front of it and compares
// it with the layout passed to dealloc (the allocator contract of C19); counts live bytes.

use std::alloc::{GlobalAlloc, Layout, System};
use std::sync::atomic::{AtomicUsize, Ordering};

pub struct Checking;

static LIVE: AtomicUsize = AtomicUsize::new(0);
static MISMATCHES: AtomicUsize = AtomicUsize::new(0);
static FIRST_ALLOC_SIZE: AtomicUsize = AtomicUsize::new(0);
static FIRST_FREE_SIZE: AtomicUsize = AtomicUsize::new(0);

pub fn live_bytes() -> usize { LIVE.load(Ordering::Relaxed) }
pub fn mismatches() -> usize { MISMATCHES.load(Ordering::Relaxed) }
pub fn first_mismatch() -> String {
    format!("first_mismatch=alloc:{}/free:{}", FIRST_ALLOC_SIZE.load(Ordering::Relaxed), FIRST_FREE_SIZE.load(Ordering::Relaxed))
}

fn header(align: usize) -> usize { if align > 16 { align } else { 16 } }

unsafe impl GlobalAlloc for Checking {
    unsafe fn alloc(&self, l: Layout) -> *mut u8 {
        let hdr = header(l.align());
        let full = match Layout::from_size_align(l.size() + hdr, hdr) { Ok(f) => f, Err(_) => return std::ptr::null_mut() };
        let p = System.alloc(full);
        if p.is_null() { return p; }
        *(p as *mut usize) = l.size();
        *(p as *mut usize).add(1) = l.align();
        LIVE.fetch_add(l.size(), Ordering::Relaxed);
        p.add(hdr)
    }

    unsafe fn dealloc(&self, ptr: *mut u8, l: Layout) {
        let hdr = header(l.align());
        let base = ptr.sub(hdr);
        let size = *(base as *mut usize);
        let align = *(base as *mut usize).add(1);
        if size != l.size() || align != l.align() {
            if MISMATCHES.fetch_add(1, Ordering::Relaxed) == 0 {
                FIRST_ALLOC_SIZE.store(size, Ordering::Relaxed);
                FIRST_FREE_SIZE.store(l.size(), Ordering::Relaxed);
            }
        }
        LIVE.fetch_sub(size, Ordering::Relaxed);
        // release with the layout the block really has
        let full = Layout::from_size_align_unchecked(size + header(align), header(align));
        System.dealloc(base, full);
    }
}
