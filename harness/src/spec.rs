// Shared textual frame format (same grammar as driver/main.ml).

use super::fr;

pub fn hex_of(bytes: &[u8]) -> String {
    if bytes.is_empty() {
        return "-".to_string();
    }
    let mut s = String::with_capacity(bytes.len() * 2);
    for b in bytes {
        s.push_str(&format!("{:02x}", b));
    }
    s
}

pub fn bytes_of_hex(s: &str) -> Vec<u8> {
    if s == "-" {
        return Vec::new();
    }
    let b = s.as_bytes();
    let hv = |c: u8| -> u8 {
        match c {
            b'0'..=b'9' => c - b'0',
            b'a'..=b'f' => c - b'a' + 10,
            b'A'..=b'F' => c - b'A' + 10,
            _ => panic!("bad hex"),
        }
    };
    (0..b.len() / 2).map(|i| hv(b[2 * i]) * 16 + hv(b[2 * i + 1])).collect()
}

fn opt_tok(v: Option<u32>) -> String {
    match v {
        Some(x) => format!("{}", x),
        None => "-".to_string(),
    }
}

pub fn frame_to_string(f: &fr::Frame) -> String {
    match f {
        fr::Frame::HandshakeSynFrame(x) => format!("syn {} {} {} {} {}", x.version, x.nonce, x.max_receive_rate, x.max_packet_size, x.max_receive_alloc),
        fr::Frame::HandshakeSynAckFrame(x) => format!("synack {} {} {} {} {}", x.nonce_ack, x.nonce, x.max_receive_rate, x.max_packet_size, x.max_receive_alloc),
        fr::Frame::HandshakeAckFrame(x) => format!("hsack {}", x.nonce_ack),
        fr::Frame::HandshakeErrorFrame(x) => format!("hserr {} {}", x.nonce_ack, match x.error {
            fr::HandshakeErrorType::Version => 0,
            fr::HandshakeErrorType::Config => 1,
            fr::HandshakeErrorType::ServerFull => 2,
        }),
        fr::Frame::DisconnectFrame(_) => "disc".to_string(),
        fr::Frame::DisconnectAckFrame(_) => "discack".to_string(),
        fr::Frame::DataFrame(x) => {
            let mut s = format!("data {} {} {}", x.sequence_id, x.nonce as u8, x.datagrams.len());
            for d in x.datagrams.iter() {
                s.push_str(&format!(" {} {} {} {} {} {} {}", d.sequence_id, d.channel_id, d.window_parent_lead,
                                    d.channel_parent_lead, d.fragment_id, d.fragment_id_last, hex_of(&d.data)));
            }
            s
        }
        fr::Frame::SyncFrame(x) => format!("sync {} {}", opt_tok(x.next_frame_id), opt_tok(x.next_packet_id)),
        fr::Frame::AckFrame(x) => {
            let mut s = format!("acks {} {} {}", x.frame_window_base_id, x.packet_window_base_id, x.frame_acks.len());
            for a in x.frame_acks.iter() {
                s.push_str(&format!(" {} {} {}", a.base_id, a.bitfield, a.nonce as u8));
            }
            s
        }
    }
}

fn n<T: std::str::FromStr>(s: &str) -> T where T::Err: std::fmt::Debug {
    s.parse::<T>().expect("bad number")
}

fn opt(s: &str) -> Option<u32> {
    if s == "-" { None } else { Some(n(s)) }
}

pub fn parse_frame(t: &[&str]) -> fr::Frame {
    match t[0] {
        "syn" => fr::Frame::HandshakeSynFrame(fr::HandshakeSynFrame {
            version: n(t[1]), nonce: n(t[2]), max_receive_rate: n(t[3]), max_packet_size: n(t[4]), max_receive_alloc: n(t[5]) }),
        "synack" => fr::Frame::HandshakeSynAckFrame(fr::HandshakeSynAckFrame {
            nonce_ack: n(t[1]), nonce: n(t[2]), max_receive_rate: n(t[3]), max_packet_size: n(t[4]), max_receive_alloc: n(t[5]) }),
        "hsack" => fr::Frame::HandshakeAckFrame(fr::HandshakeAckFrame { nonce_ack: n(t[1]) }),
        "hserr" => fr::Frame::HandshakeErrorFrame(fr::HandshakeErrorFrame {
            nonce_ack: n(t[1]),
            error: match t[2] { "0" => fr::HandshakeErrorType::Version, "1" => fr::HandshakeErrorType::Config, _ => fr::HandshakeErrorType::ServerFull } }),
        "disc" => fr::Frame::DisconnectFrame(fr::DisconnectFrame {}),
        "discack" => fr::Frame::DisconnectAckFrame(fr::DisconnectAckFrame {}),
        "data" => {
            let cnt: usize = n(t[3]);
            let mut dgs = Vec::new();
            for k in 0..cnt {
                let o = 4 + 7 * k;
                dgs.push(fr::Datagram {
                    sequence_id: n(t[o]), channel_id: n(t[o + 1]), window_parent_lead: n(t[o + 2]),
                    channel_parent_lead: n(t[o + 3]), fragment_id: n(t[o + 4]), fragment_id_last: n(t[o + 5]),
                    data: bytes_of_hex(t[o + 6]).into_boxed_slice() });
            }
            fr::Frame::DataFrame(fr::DataFrame { sequence_id: n(t[1]), nonce: t[2] == "1", datagrams: dgs })
        }
        "sync" => fr::Frame::SyncFrame(fr::SyncFrame { next_frame_id: opt(t[1]), next_packet_id: opt(t[2]) }),
        "acks" => {
            let cnt: usize = n(t[3]);
            let mut acks = Vec::new();
            for k in 0..cnt {
                let o = 4 + 3 * k;
                acks.push(fr::AckGroup { base_id: n(t[o]), bitfield: n(t[o + 1]), nonce: t[o + 2] == "1" });
            }
            fr::Frame::AckFrame(fr::AckFrame { frame_window_base_id: n(t[1]), packet_window_base_id: n(t[2]), frame_acks: acks })
        }
        _ => panic!("bad frame spec"),
    }
}
